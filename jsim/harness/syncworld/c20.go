package syncworld

import (
	"errors"
	"fmt"
	"strings"
	"time"

	"github.com/NethermindEth/juno/blockchain"
	"github.com/NethermindEth/juno/core"
	"github.com/NethermindEth/juno/core/felt"
	"github.com/NethermindEth/juno/core/pending"
	"github.com/NethermindEth/juno/starknet"
	jsync "github.com/NethermindEth/juno/sync"
	"github.com/NethermindEth/juno/sync/preconfirmed"

	"jsim/chaingen"
	"jsim/refstate"
	"jsim/sim"
)

// ---- views held by readers ---------------------------------------------------------------------

type viewRec struct {
	id      int
	chain   preconfirmed.ChainReader
	step    int
	headNum int               // height of the canonical head the view was aligned to
	acq     []*chaingen.Block // the node's canonical chain when the view was taken
	base    *chaingen.Block   // the canonical block the view was aligned to (nil: the head moved during the reader action, not determinable)
	entries []*pending.PreConfirmed
	fp      string
	checks  int
}

type pcWorld struct {
	w      *world
	m      *pcModel
	views  []*viewRec
	nViews int
	bc     blockchain.Reader

	// what the canonical chain is now (model side); direct-drive keeps its own
	canon func() []*chaingen.Block

	take func() (preconfirmed.ChainReader, error) // how a reader obtains a view
	feed jsync.PreConfirmedDataSubscription

	// class definitions
	canonDefs map[felt.Felt]core.ClassDefinition // classes declared by any canonical block the run has had under a view
	regOn     map[felt.Felt]string               // class hash -> identifier of the round on whose stored entry its definition was last seen registered

	pf *pcFeeder // feeder class only (c20feeder.go): the poller's DataSource is the real feeder stack over the simulated gateway
}

// noteCanon records the classes of canonical blocks (current chain, chains under held views).
func (p *pcWorld) noteCanon(bs []*chaingen.Block) {
	if p.canonDefs == nil {
		p.canonDefs = map[felt.Felt]core.ClassDefinition{}
	}
	for _, b := range bs {
		for h, d := range b.Classes {
			p.canonDefs[h] = d
		}
	}
}

// noteRegistered records that the storage holds (held) an entry with class definitions registered on it.
func (p *pcWorld) noteRegistered(e *pending.PreConfirmed) {
	if e == nil || len(e.NewClasses) == 0 {
		return
	}
	if p.regOn == nil {
		p.regOn = map[felt.Felt]string{}
	}
	for h := range e.NewClasses {
		p.regOn[h] = e.BlockIdentifier
	}
}

// drainFeed empties the pre-confirmed data feed (not part of the statement; counted as evidence
// that the poller applied an update).
func (p *pcWorld) drainFeed() {
	select {
	case e := <-p.feed.Recv():
		if e != nil {
			p.w.c.Probe("poller_published_update")
			p.noteRegistered(e)
			p.w.logf("obs: poller published block %d round %s with %d txs", e.Block.Number, e.BlockIdentifier, len(e.Block.Transactions))
		}
	default:
	}
}

func fingerprint(entries []*pending.PreConfirmed) string {
	var sb strings.Builder
	for _, e := range entries {
		sb.WriteString(canon(e))
		sb.WriteByte('|')
	}
	return sb.String()
}

func collect(ch *preconfirmed.ChainReader) []*pending.PreConfirmed {
	var out []*pending.PreConfirmed
	for e := range ch.OldestFirst() {
		out = append(out, e)
	}
	return out
}

// takeView: a reader obtains a view; oracle (1).
func (p *pcWorld) takeView(alignedTo int) {
	w := p.w
	c := w.c
	ch, err := p.take()
	if err != nil {
		if len(p.canon()) == 0 {
			w.logf("reader: no view on an empty chain (%v)", err)
			return
		}
		c.Inconclusive++
		w.logf("reader: PreConfirmedChain failed: %v", err)
		return
	}
	p.checkTaken(ch, []int{alignedTo}, nil)
}

// viewSnap is what a reader saw of a view at the moment it obtained it.
type viewSnap struct {
	entries []*pending.PreConfirmed
	fp      string
}

func snapView(ch *preconfirmed.ChainReader) *viewSnap {
	e := collect(ch)
	return &viewSnap{entries: e, fp: fingerprint(e)}
}

// checkTaken: oracle (1) on a view a reader has just obtained. heads lists, in order, every canonical
// head that was current at some instant of the reader action that obtained the view (one value when the
// reader ran atomically with respect to the writer); the view must be aligned to one of them. early, if
// not nil, is the content the reader itself saw when it obtained the view, which may be earlier than
// now (a writer action that was in progress at that moment has completed since): the view must not
// have changed in between, and it is the early content that later inspections are compared with.
func (p *pcWorld) checkTaken(ch preconfirmed.ChainReader, heads []int, early *viewSnap) {
	w := p.w
	c := w.c
	alignedTo := heads[len(heads)-1]
	c.Evals++
	entries := collect(&ch)
	fpNow := ""
	if early != nil {
		if len(early.entries) != len(entries) {
			c.Fail("view_mutated", "length", "a view iterated %d blocks when the reader obtained it and %d when its reader action ended", len(early.entries), len(entries))
		}
		for i := range entries {
			if entries[i] != early.entries[i] {
				c.Fail("view_mutated", "entry_replaced", "entry %d of a view is a different object at the end of the reader action that obtained it", i)
			}
		}
		if fpNow = fingerprint(entries); fpNow != early.fp {
			c.Fail("view_mutated", mutatedWhat(early.fp, fpNow), "a view changed between the moment the reader obtained it and the end of its reader action (a writer action was in progress): %s", firstDiff(early.fp, fpNow))
		}
	} else {
		fpNow = fingerprint(entries)
	}
	if len(entries) != ch.Length() {
		c.Fail("view_gap", "length", "view reports length %d but iterates %d entries (canonical heads during the reader action: %v)", ch.Length(), len(entries), heads)
	}
	if len(entries) == 0 {
		if len(heads) > 1 {
			w.logf("reader: empty view (heads %v)", heads)
		} else {
			w.logf("reader: empty view (head %d)", alignedTo)
		}
		return
	}
	for i, e := range entries {
		if e == nil || e.Block == nil || e.Block.Header == nil {
			c.Fail("view_gap", "nil_entry", "view entry %d is nil", i)
		}
		if i > 0 && e.Block.Number != entries[i-1].Block.Number+1 {
			c.Fail("view_gap", "non_contiguous", "view is not gap-free: entry %d is block %d after block %d", i, e.Block.Number, entries[i-1].Block.Number)
		}
	}
	aligned := false
	for i := len(heads) - 1; i >= 0 && !aligned; i-- {
		if entries[0].Block.Number == uint64(heads[i]+1) {
			aligned, alignedTo = true, heads[i]
		}
	}
	if !aligned {
		if len(heads) > 1 {
			c.Fail("view_alignment", "oldest_not_head_plus_one", "view starts at block %d, length %d, but the canonical heads that were current during the reader action are %v: it is not one above any of them", entries[0].Block.Number, len(entries), heads)
		}
		c.Fail("view_alignment", "oldest_not_head_plus_one", "view taken at canonical head %d starts at block %d (expected %d), length %d", alignedTo, entries[0].Block.Number, alignedTo+1, len(entries))
	}
	if alignedTo != heads[len(heads)-1] {
		c.Probe("view_aligned_to_a_head_that_moved_during_the_action")
	}
	var newest []*pending.PreConfirmed
	for e := range ch.NewestFirst() {
		newest = append(newest, e)
	}
	for i := range entries {
		if len(newest) != len(entries) || newest[len(newest)-1-i] != entries[i] {
			c.Fail("view_gap", "iteration_orders_disagree", "NewestFirst and OldestFirst disagree on the view's content")
		}
	}
	if ch.Head() != entries[len(entries)-1] {
		c.Fail("view_gap", "head", "Head() is not the newest entry of the view")
	}
	p.nViews++
	v := &viewRec{id: p.nViews, chain: ch, step: w.step, headNum: alignedTo, acq: append([]*chaingen.Block(nil), p.canon()...), entries: entries, fp: fpNow}
	if len(heads) == 1 && alignedTo >= 0 && alignedTo < len(v.acq) {
		v.base = v.acq[alignedTo]
	}
	p.noteCanon(v.acq)
	for _, e := range entries {
		p.noteRegistered(e)
	}
	p.views = append(p.views, v)
	if len(p.views) > 5 {
		p.views = p.views[1:]
	}
	ntx := 0
	ncls := 0
	for _, e := range entries {
		ntx += len(e.Block.Transactions)
		ncls += len(e.NewClasses)
	}
	if len(entries) >= 2 {
		c.Probe("view_with_several_blocks")
	}
	if ncls > 0 {
		c.Probe("view_with_class_definitions")
	}
	if entries[len(entries)-1].BlockIdentifier != "0x0" {
		c.Probe("view_from_poller_storage")
	}
	if ntx > 0 {
		c.Probe("view_with_transactions")
	}
	w.logf("reader: view#%d at head %d: blocks %d..%d, %d txs, %d classes, tip round %s", v.id, alignedTo, entries[0].Block.Number, entries[len(entries)-1].Block.Number, ntx, ncls, entries[len(entries)-1].BlockIdentifier)
}

// reinspect: oracle (2).
func (p *pcWorld) reinspect(v *viewRec) {
	w := p.w
	c := w.c
	c.Evals++
	v.checks++
	entries := collect(&v.chain)
	if len(entries) != len(v.entries) {
		c.Fail("view_mutated", "length", "view#%d (taken at step %d) had %d blocks, now iterates %d", v.id, v.step, len(v.entries), len(entries))
	}
	for i := range entries {
		if entries[i] != v.entries[i] {
			c.Fail("view_mutated", "entry_replaced", "view#%d (taken at step %d): entry %d (block %d) is a different object now", v.id, v.step, i, v.entries[i].Block.Number)
		}
	}
	if fp := fingerprint(entries); fp != v.fp {
		c.Fail("view_mutated", mutatedWhat(v.fp, fp), "view#%d (taken at step %d) changed after it was handed out: %s", v.id, v.step, firstDiff(v.fp, fp))
	}
	if w.step > v.step {
		c.Probe("view_reinspected_later")
	}
	w.logf("reader: view#%d re-inspected, unchanged", v.id)
}

// mutatedWhat names the field of the first difference between two fingerprints (for the key).
func mutatedWhat(a, b string) string {
	n := min(len(a), len(b))
	i := 0
	for i < n && a[i] == b[i] {
		i++
	}
	pre := a[:i]
	best, bestAt := "content", -1
	for _, f := range []string{"NewClasses=", "TransactionStateDiffs=", "StateUpdate=", "Block=", "BlockIdentifier=", "Transactions=", "Receipts=", "StateDiff="} {
		if k := strings.LastIndex(pre, f); k > bestAt {
			best, bestAt = strings.TrimSuffix(f, "="), k
		}
	}
	return best
}

// stateCheck: oracle (3). State read through view v at block n must equal the canonical state of
// the block below the view overlaid with the state diffs of the view's blocks up to n, in order.
//
// While the chain still has the height below the view, the canonical block below the view is taken as it
// is at read time (that is what the view opens; a base block replaced by another fork is accepted as the
// base). When the chain no longer has that height (the head was reverted below the base the view was
// aligned to) there is no canonical state below the view any more: a read through the held view may be
// refused, but when it is answered it must answer what the view answered before, i.e. the overlay over
// the base the view was aligned to - never a value taken from the state of the live head.
func (p *pcWorld) stateCheck(v *viewRec, idx int) {
	w := p.w
	c := w.c
	n := v.entries[idx].Block.Number
	baseNum := int(v.entries[0].Block.Number) - 1
	now := p.canon()
	p.noteCanon(now)
	gone := baseNum >= len(now) || baseNum < 0
	var live *refstate.State // state of the live head (gone only)
	if gone {
		c.Probe("state_read_on_stale_view")
		c.Probe("held_view_read_after_base_reverted")
		live = refstate.New()
		if len(now) > 0 {
			live = now[len(now)-1].Post
		}
		if v.base != nil {
			if p.distinguishable(v, idx, v.base.Post, live) {
				c.Probe("held_view_read_after_base_reverted_distinguishable")
			}
		}
	}
	st, closer, err := v.chain.PreConfirmedStateAt(n, p.bc)
	if err != nil {
		if gone {
			c.Probe("held_view_read_after_base_reverted_refused")
			w.logf("reader: view#%d state@%d: base block %d is gone (head %d), the read is refused (%v)", v.id, n, baseNum, len(now)-1, err)
			return
		}
		c.Fail("overlay_state", "open_failed", "view#%d: PreConfirmedStateAt(%d) failed although canonical block %d exists: %v", v.id, n, baseNum, err)
	}
	defer func() { _ = closer() }()
	var base *chaingen.Block
	pfx, stale := "", false
	if gone {
		c.Probe("held_view_read_after_base_reverted_answered")
		if v.base == nil {
			c.Inconclusive++
			w.logf("reader: view#%d state@%d: opened although base block %d is gone; the base the view was aligned to is not determinable (the head moved while the view was taken); not compared", v.id, n, baseNum)
			return
		}
		base, pfx, stale = v.base, "base_reverted:", true
	} else {
		base = now[baseNum]
		stale = baseNum >= len(v.acq) || v.acq[baseNum] != base
		if stale {
			c.Probe("state_read_base_replaced_since_acquisition")
		}
	}
	ov := newOverlay(base.Post)
	for i := 0; i <= idx; i++ {
		for _, d := range v.entries[i].TransactionStateDiffs {
			ov.apply(d)
		}
	}
	c.Evals++
	v.checks++
	t := c.T
	ctx := fmt.Sprintf("base block %d %s, stale=%v", baseNum, short(base.B.Hash), stale)
	if gone {
		ctx = fmt.Sprintf("base block %d %s the view was aligned to has been reverted, live head %d", baseNum, short(base.B.Hash), len(now)-1)
	}
	nread := 0
	// readContract compares everything readable of contract a (which exists in the overlay model) for the given slots
	readContract := func(a felt.Felt, ct *refstate.Contract, slots []felt.Felt) {
		nread++
		ch, err := st.ContractClassHash(&a)
		if err != nil || !ch.Equal(&ct.ClassHash) {
			c.Fail("overlay_state", pfx+"ContractClassHash", "view#%d state@%d ContractClassHash(%s)=%s,%v expected %s (%s)", v.id, n, short(&a), short(&ch), err, short(&ct.ClassHash), ctx)
		}
		nn, err := st.ContractNonce(&a)
		if err != nil || !nn.Equal(&ct.Nonce) {
			c.Fail("overlay_state", pfx+"ContractNonce", "view#%d state@%d ContractNonce(%s)=%s,%v expected %s (%s)", v.id, n, short(&a), short(&nn), err, short(&ct.Nonce), ctx)
		}
		for _, k := range slots {
			want := ct.Storage[k]
			got, err := st.ContractStorage(&a, &k)
			if err != nil || !got.Equal(&want) {
				c.Fail("overlay_state", pfx+"ContractStorage", "view#%d state@%d ContractStorage(%s,%s)=%s,%v expected %s (%s)", v.id, n, short(&a), short(&k), short(&got), err, short(&want), ctx)
			}
		}
	}
	if !gone {
		var addrs []felt.Felt
		for _, a := range refstate.SortedFelts(ov.st.Contracts) {
			if !ov.st.Contracts[a].System && !ov.skip(a) {
				addrs = append(addrs, a)
			}
		}
		for q := 0; q < 4 && len(addrs) > 0; q++ {
			a := addrs[t.Draw("rd.addr", len(addrs))]
			var slots []felt.Felt
			for r := 0; r < 2; r++ {
				slots = append(slots, p.m.slots[t.Draw("rd.slot", len(p.m.slots))])
			}
			readContract(a, ov.st.Contracts[a], slots)
		}
	} else {
		// no draws: every contract of the overlay model and of the live head, every slot either of them has
		// (keys the view's diffs cover and keys they do not), up to a bound
		ovLive := newOverlay(live)
		for i := 0; i <= idx; i++ {
			for _, d := range v.entries[i].TransactionStateDiffs {
				ovLive.apply(d)
			}
		}
		all := map[felt.Felt]bool{}
		for a := range ov.st.Contracts {
			all[a] = true
		}
		for a := range ovLive.st.Contracts {
			all[a] = true
		}
		budget := 160
		for _, a := range refstate.SortedFelts(all) {
			ct, lv := ov.st.Contracts[a], ovLive.st.Contracts[a]
			if ov.skip(a) || (ct != nil && ct.System) || (ct == nil && lv.System) || budget <= 0 {
				continue
			}
			keys := map[felt.Felt]bool{}
			if ct != nil {
				for k := range ct.Storage {
					keys[k] = true
				}
			}
			if lv != nil {
				for k := range lv.Storage {
					keys[k] = true
				}
			}
			slots := refstate.SortedFelts(keys)
			if len(slots) > 12 {
				slots = slots[:12]
			}
			budget -= 2 + len(slots)
			if ct != nil {
				readContract(a, ct, slots)
				continue
			}
			// the contract does not exist in the overlay over the base the view was aligned to (only the live
			// head has it): nothing but "absent" (an error or zero) may be answered
			nread++
			if ch, err := st.ContractClassHash(&a); err == nil && !ch.IsZero() {
				c.Fail("overlay_state", pfx+"ContractClassHash_of_absent_contract", "view#%d state@%d ContractClassHash(%s)=%s for a contract that does not exist in the overlay (%s)", v.id, n, short(&a), short(&ch), ctx)
			}
			for _, k := range slots {
				if got, err := st.ContractStorage(&a, &k); err == nil && !got.IsZero() {
					c.Fail("overlay_state", pfx+"ContractStorage_of_absent_contract", "view#%d state@%d ContractStorage(%s,%s)=%s for a contract that does not exist in the overlay (%s)", v.id, n, short(&a), short(&k), short(&got), ctx)
				}
			}
		}
	}
	for _, h := range refstate.SortedFelts(ov.casm) {
		want := ov.casm[h]
		got, err := st.CompiledClassHash((*felt.SierraClassHash)(&h))
		if err != nil || !(*felt.Felt)(&got).Equal(&want) {
			c.Fail("overlay_state", pfx+"CompiledClassHash", "view#%d state@%d CompiledClassHash(%s)=%s,%v expected %s", v.id, n, short(&h), short((*felt.Felt)(&got)), err, short(&want))
		}
		nread++
	}
	ncls := p.classReads(v, idx, st, base, pfx, ctx)
	if nread > 0 && idx > 0 {
		c.Probe("state_read_across_several_view_blocks")
	}
	w.logf("reader: view#%d state@%d over canonical block %d: %d items and %d class lookups agree with the overlay model (%s)", v.id, n, baseNum, nread, ncls, ctx)
}

// distinguishable: would a read through view v at entries[idx] over state b instead of state a be noticed,
// i.e. does some value the comparison reads differ between the two overlays?
func (p *pcWorld) distinguishable(v *viewRec, idx int, a, b *refstate.State) bool {
	oa, ob := newOverlay(a), newOverlay(b)
	for i := 0; i <= idx; i++ {
		for _, d := range v.entries[i].TransactionStateDiffs {
			oa.apply(d)
			ob.apply(d)
		}
	}
	for h := range a.Classes {
		if b.Classes[h] == nil {
			return true
		}
	}
	for h := range b.Classes {
		if a.Classes[h] == nil {
			return true
		}
	}
	for addr, ca := range oa.st.Contracts {
		if oa.skip(addr) || ca.System {
			continue
		}
		cb := ob.st.Contracts[addr]
		if cb == nil || !cb.ClassHash.Equal(&ca.ClassHash) || !cb.Nonce.Equal(&ca.Nonce) || len(cb.Storage) != len(ca.Storage) {
			return true
		}
		for k, x := range ca.Storage {
			if y, ok := cb.Storage[k]; !ok || !y.Equal(&x) {
				return true
			}
		}
	}
	return false
}

// classUniverse lists every class hash the run has used so far - declared by a canonical block (of the
// current chain or of a chain some view was taken over, i.e. also reverted blocks and other forks), by a
// pre-confirmed transaction of any round (current, replaced, abandoned; registered on a stored entry or
// not) - plus two hashes nothing ever declared. The hashes view v itself carries or declares come first.
func (p *pcWorld) classUniverse(v *viewRec) []felt.Felt {
	first := map[felt.Felt]bool{}
	for _, e := range v.entries {
		for h := range e.NewClasses {
			first[h] = true
		}
		for _, d := range e.TransactionStateDiffs {
			for h := range d.DeclaredV1Classes {
				first[h] = true
			}
		}
	}
	rest := map[felt.Felt]bool{*fu(0xdead0001): true, *fu(0x900000 + 0xfffff): true}
	for h := range p.canonDefs {
		rest[h] = true
	}
	for h := range p.m.classes {
		rest[h] = true
	}
	out := refstate.SortedFelts(first)
	for _, h := range refstate.SortedFelts(rest) {
		if !first[h] {
			out = append(out, h)
		}
	}
	if len(out) > 120 {
		out = out[:120]
	}
	return out
}

// classOrigin says, for the trace and the violation key, where a class hash that neither the base nor a
// block of the view up to entries[idx] declares comes from.
func (p *pcWorld) classOrigin(v *viewRec, idx int, h felt.Felt) string {
	if _, ok := p.canonDefs[h]; ok {
		return "declared_by_a_canonical_block_not_below_the_view"
	}
	x := p.m.classTx[h]
	if x == nil {
		if _, ok := p.m.classes[h]; ok {
			return "declared_by_no_transaction"
		}
		return "never_declared"
	}
	for i, e := range v.entries {
		if e.Block.Number != x.slot {
			continue
		}
		switch {
		case e.BlockIdentifier != x.round:
			return "declared_only_in_an_abandoned_round_of_a_view_slot"
		case i > idx:
			return "declared_by_a_later_block_of_the_view"
		default:
			return "declared_by_a_transaction_the_view_block_does_not_hold"
		}
	}
	return "declared_in_a_round_of_a_slot_outside_the_view"
}

// classReads: oracle (3) for class definitions. st is the state read through view v at entries[idx] over
// canonical block base. For every class hash of the universe: Class(h) resolves only if base declares the
// class or a block of the view up to entries[idx] does (in a state diff the view itself carries), and then
// with the declared definition; it must resolve when base declares it or when an entry of the view up to
// that block carries the definition. A class a view block declares whose definition no entry carries may
// be unresolved (definitions are not part of a state diff; whether the poller has fetched one yet is
// not part of the statement). CompiledClassHash of a pre-confirmed class resolves exactly when a block of
// the view up to entries[idx] declares it.
func (p *pcWorld) classReads(v *viewRec, idx int, st core.StateReader, base *chaingen.Block, pfx, ctx string) int {
	w := p.w
	c := w.c
	n := v.entries[idx].Block.Number
	decl := map[felt.Felt]bool{}
	carried := map[felt.Felt]core.ClassDefinition{}
	for i := 0; i <= idx; i++ {
		e := v.entries[i]
		diffs := append([]*core.StateDiff(nil), e.TransactionStateDiffs...)
		if e.StateUpdate != nil && e.StateUpdate.StateDiff != nil {
			diffs = append(diffs, e.StateUpdate.StateDiff)
		}
		for _, d := range diffs {
			if d == nil {
				continue
			}
			for h := range d.DeclaredV1Classes {
				decl[h] = true
			}
			for _, h := range d.DeclaredV0Classes {
				decl[*h] = true
			}
		}
		for h, def := range e.NewClasses {
			carried[h] = def
		}
	}
	nq := 0
	for _, h := range p.classUniverse(v) {
		nq++
		bc := base.Post.Classes[h]
		got, err := st.Class(&h)
		switch {
		case err == nil && bc == nil && !decl[h]:
			origin := p.classOrigin(v, idx, h)
			c.Fail("overlay_state", pfx+"Class_resolved_but_not_declared:"+origin, "view#%d state@%d Class(%s) resolves a definition although neither the canonical base nor a block of the view up to %d declares that class (%s; its definition was last seen registered on a stored entry of round %q; %s)", v.id, n, short(&h), n, origin, p.regOn[h], ctx)
		case err == nil:
			if got == nil || got.Class == nil {
				c.Fail("overlay_state", pfx+"Class_nil", "view#%d state@%d Class(%s) returned no definition and no error", v.id, n, short(&h))
			}
			var want core.ClassDefinition
			if decl[h] {
				want = p.m.classes[h]
				c.Probe("class_declared_in_view_resolved")
			} else {
				want = bc.Def
				c.Probe("class_of_canonical_base_resolved")
			}
			if want != nil {
				if cw, cg := canon(want), canon(got.Class); cw != cg {
					c.Fail("overlay_state", pfx+"Class_definition", "view#%d state@%d Class(%s) resolves to another definition than the declared one: %s", v.id, n, short(&h), firstDiff(cw, cg))
				}
			}
		case bc != nil:
			c.Fail("overlay_state", pfx+"Class_of_canonical_base_not_found", "view#%d state@%d Class(%s): %v, although canonical block %d (declared at %d) has the class (%s)", v.id, n, short(&h), err, base.B.Number, bc.DeclaredAt, ctx)
		case decl[h] && carried[h] != nil:
			c.Fail("overlay_state", pfx+"Class_carried_by_view_not_found", "view#%d state@%d Class(%s): %v, although a block of the view up to %d declares the class and carries its definition", v.id, n, short(&h), err, n)
		case decl[h]:
			c.Probe("class_declared_in_view_definition_not_registered")
		default:
			switch p.classOrigin(v, idx, h) {
			case "declared_only_in_an_abandoned_round_of_a_view_slot":
				c.Probe("class_of_abandoned_round_absent")
				if p.regOn[h] != "" {
					c.Probe("class_registered_on_replaced_round_absent")
				}
			case "declared_by_a_later_block_of_the_view":
				c.Probe("class_of_later_view_block_absent")
			case "declared_by_a_canonical_block_not_below_the_view":
				c.Probe("class_of_canonical_block_not_below_view_absent")
			case "never_declared", "declared_by_no_transaction":
				c.Probe("class_never_declared_absent")
			}
		}
		// compiled class hash of pre-confirmed classes (never declared by the canonical chain)
		if _, pc := p.m.classes[h]; pc && bc == nil && !decl[h] {
			if got, err := st.CompiledClassHash((*felt.SierraClassHash)(&h)); err == nil {
				c.Fail("overlay_state", pfx+"CompiledClassHash_resolved_but_not_declared:"+p.classOrigin(v, idx, h), "view#%d state@%d CompiledClassHash(%s)=%s although neither the canonical base nor a block of the view up to %d declares that class (%s)", v.id, n, short(&h), short((*felt.Felt)(&got)), n, ctx)
			}
		}
	}
	return nq
}

// classCheck: the class part of oracle (3) at every block of a held view.
func (p *pcWorld) classCheck(v *viewRec) {
	w := p.w
	c := w.c
	baseNum := int(v.entries[0].Block.Number) - 1
	now := p.canon()
	p.noteCanon(now)
	if baseNum >= len(now) || baseNum < 0 {
		// the base is gone: what a read may answer then is stateCheck's subject
		p.stateCheck(v, len(v.entries)-1)
		return
	}
	base := now[baseNum]
	stale := baseNum >= len(v.acq) || v.acq[baseNum] != base
	ctx := fmt.Sprintf("base block %d %s, stale=%v", baseNum, short(base.B.Hash), stale)
	c.Evals++
	v.checks++
	nq := 0
	for idx := range v.entries {
		n := v.entries[idx].Block.Number
		st, closer, err := v.chain.PreConfirmedStateAt(n, p.bc)
		if err != nil {
			c.Fail("overlay_state", "open_failed", "view#%d: PreConfirmedStateAt(%d) failed although canonical block %d exists: %v", v.id, n, baseNum, err)
		}
		nq += p.classReads(v, idx, st, base, "", ctx)
		_ = closer()
	}
	if len(v.entries) > 1 {
		c.Probe("class_resolution_checked_at_every_block_of_a_view")
	}
	w.logf("reader: view#%d class resolution at each of its %d blocks over canonical block %d: %d lookups agree with the overlay model (%s)", v.id, len(v.entries), baseNum, nq, ctx)
}

// lookupCheck: oracle (4).
func (p *pcWorld) lookupCheck(v *viewRec) {
	w := p.w
	c := w.c
	c.Evals++
	v.checks++
	in := map[felt.Felt]bool{}
	nfound := 0
	// A hash occurs once in a view unless the gateway served the same transactions twice (feeder class: a
	// delta that overlaps what the poller holds, one round served for two slots). "Finds exactly the items of
	// the view's blocks" is then satisfied by any item of the view with that hash (c20feeder.go: dupItems).
	dups := dupItems(v.entries)
	for _, e := range v.entries {
		for i, tx := range e.Block.Transactions {
			h := tx.Hash()
			in[*h] = true
			got, err := v.chain.TransactionByHash(h)
			if err != nil || (got != tx && !dups.hasTx(h, got)) {
				c.Fail("view_lookup", "transaction_of_view_not_found", "view#%d: TransactionByHash(%s) of block %d index %d: %v", v.id, short(h), e.Block.Number, i, err)
			}
			rc, num, err := v.chain.ReceiptByHash(h)
			if err != nil || ((rc != e.Block.Receipts[i] || num != e.Block.Number) && !dups.hasReceipt(h, rc, num)) {
				c.Fail("view_lookup", "receipt_of_view_not_found", "view#%d: ReceiptByHash(%s) of block %d index %d: number=%d err=%v", v.id, short(h), e.Block.Number, i, num, err)
			}
			nfound++
		}
	}
	if len(dups) > 0 {
		c.Probe("lookup_in_view_with_repeated_transactions")
	}
	// hashes that are not in the view: transactions of other rounds and slots, and a committed one
	nabsent := 0
	probe := func(h *felt.Felt, what string) {
		if in[*h] {
			return
		}
		nabsent++
		if tx, err := v.chain.TransactionByHash(h); !errors.Is(err, pending.ErrTransactionNotFound) {
			c.Fail("view_lookup", "foreign_transaction_found", "view#%d: TransactionByHash(%s) (%s, not in the view's blocks) returned %v, %v", v.id, short(h), what, tx != nil, err)
		}
		if _, _, err := v.chain.ReceiptByHash(h); !errors.Is(err, pending.ErrTransactionReceiptNotFound) {
			c.Fail("view_lookup", "foreign_receipt_found", "view#%d: ReceiptByHash(%s) (%s, not in the view's blocks) returned err=%v", v.id, short(h), what, err)
		}
	}
	all := p.m.allTx
	for i := len(all) - 1; i >= 0 && i >= len(all)-12; i-- {
		probe(&all[i].hash, "a pre-confirmed transaction of another round or slot")
	}
	for _, b := range p.canon() {
		if len(b.B.Transactions) > 0 {
			probe(b.B.Transactions[0].Hash(), "a committed transaction")
			break
		}
	}
	probe(fu(0x123456789), "an unknown hash")
	if nfound > 0 {
		c.Probe("lookup_found_view_transactions")
	}
	w.logf("reader: view#%d lookups: %d found, %d foreign hashes absent", v.id, nfound, nabsent)
}

func (p *pcWorld) readerOptions(alignedTo func() int) []option {
	var opts []option
	opts = append(opts, option{"reader.take", 4, func() { p.takeView(alignedTo()) }})
	if len(p.views) > 0 {
		pick := func() *viewRec { return p.views[p.w.c.T.Draw("rd.view", len(p.views))] }
		opts = append(opts, option{"reader.inspect", 3, func() { p.reinspect(pick()) }})
		opts = append(opts, option{"reader.state", 3, func() {
			v := pick()
			p.stateCheck(v, p.w.c.T.Draw("rd.block", len(v.entries)))
		}})
		opts = append(opts, option{"reader.lookup", 2, func() { p.lookupCheck(pick()) }})
		opts = append(opts, option{"reader.class", 2, func() { p.classCheck(pick()) }})
		// held views whose base the canonical chain no longer has (the head was reverted below it)
		var gone []*viewRec
		height := len(p.canon())
		for _, v := range p.views {
			if int(v.entries[0].Block.Number)-1 >= height {
				gone = append(gone, v)
			}
		}
		if len(gone) > 0 {
			opts = append(opts, option{"reader.reverted", 4, func() {
				v := gone[p.w.c.T.Draw("rd.gone", len(gone))]
				p.stateCheck(v, p.w.c.T.Draw("rd.block", len(v.entries)))
			}})
		}
	}
	return opts
}

// finalInspect re-inspects every held view at the end of a run.
func (p *pcWorld) finalInspect() {
	for _, v := range p.views {
		p.reinspect(v)
	}
}

// ---- the sequencer's pre-confirmed side, synchronizer-driven class -------------------------------

const maxSlots = 6

func (w *world) pcVersion() string { return w.cur.tip().Version }

// pcAlign keeps the sequencer's slots above the source tip after the source chain changed.
func (p *pcWorld) pcAlign(reset bool) {
	w := p.w
	m := p.m
	tip := uint64(len(w.cur.chain) - 1)
	for _, n := range m.sortedNums() {
		if n <= tip || reset {
			delete(m.rounds, n)
		}
	}
	if len(m.rounds) == 0 {
		st := m.stateBelow(w.cur.tip().Post, tip+1)
		r := m.newRound(tip+1, w.pcVersion(), st, m.t.Draw("pc.ntx0", 3))
		w.logf("env: sequencer opens slot %d round %s with %d txs", r.num, r.ident, len(r.txs))
	}
}

func (p *pcWorld) pcEnvOptions() []option {
	w := p.w
	m := p.m
	t := w.c.T
	base := w.cur.tip().Post
	var opts []option
	lat := m.latest()
	opts = append(opts, option{"pc.append", 3, func() {
		st := m.stateThrough(base, lat.num)
		k := 1 + t.Draw("pc.app.n", 2)
		for i := 0; i < k; i++ {
			m.extend(lat, st)
		}
		w.logf("env: sequencer appends %d txs to slot %d round %s (now %d)", k, lat.num, lat.ident, len(lat.txs))
	}})
	opts = append(opts, option{"pc.newround", 1, func() {
		ns := m.sortedNums()
		n := ns[len(ns)-1]
		if len(ns) > 1 && t.Draw("pc.nr.old", 3) == 0 {
			n = ns[t.Draw("pc.nr.slot", len(ns))]
		}
		for _, k := range ns {
			if k > n {
				delete(m.rounds, k)
			}
		}
		r := m.newRound(n, w.pcVersion(), m.stateBelow(base, n), t.Draw("pc.nr.ntx", 3))
		w.c.Fault("pc_new_round")
		w.logf("env: sequencer starts a new round %s for slot %d with %d txs (slots above dropped)", r.ident, n, len(r.txs))
	}})
	if len(m.rounds) < maxSlots {
		opts = append(opts, option{"pc.open", 2, func() {
			k := 1
			if t.Draw("pc.jump", 3) == 0 {
				k = 2 + t.Draw("pc.jump.n", 2)
				w.c.Fault("pc_jump_ahead")
			}
			for i := 0; i < k && len(m.rounds) < maxSlots; i++ {
				n := m.latest().num + 1
				r := m.newRound(n, w.pcVersion(), m.stateBelow(base, n), t.Draw("pc.open.ntx", 3))
				w.logf("env: sequencer opens slot %d round %s with %d txs", n, r.ident, len(r.txs))
			}
		}})
	}
	return opts
}

func (p *pcWorld) answerPc(r *req, mode string) {
	w := p.w
	m := p.m
	switch mode {
	case "err":
		w.answerErr(r)
		return
	case "ctxerr":
		w.answerCtxErr(r)
		return
	}
	if r.kind != "class" {
		w.mu.Lock()
		w.classBurst = false
		w.mu.Unlock()
	}
	switch r.kind {
	case "pclatest":
		lat := m.latest()
		upd, what := lat.answer(r.ident, r.txc)
		num := lat.num
		if _, nc := upd.(starknet.PreConfirmedNoChange); nc && w.c.T.Draw("pc.nonum", 2) == 0 {
			num = 0 // a no-change response may omit the block number
		}
		switch upd.(type) {
		case starknet.PreConfirmedDeltaUpdate:
			w.c.Fault("pc_delta")
		case starknet.PreConfirmedNoChange:
			w.c.Fault("pc_no_change")
		}
		if int(lat.num) != len(w.local) {
			w.c.Probe("latest_slot_not_head_plus_one")
		}
		w.logf("answer %s: slot %d %s", r.key, lat.num, what)
		w.release(r, resp{upd: upd, num: num})
	case "pcnum":
		rd := m.rounds[r.n]
		if rd == nil {
			w.c.Fault("pc_slot_gone")
			w.logf("answer %s: slot %d is not served (gap)", r.key, r.n)
			w.release(r, resp{err: errNotFound})
			return
		}
		upd, what := rd.answer(r.ident, r.txc)
		w.c.Probe("poller_backfill_served")
		w.logf("answer %s: slot %d %s", r.key, r.n, what)
		w.release(r, resp{upd: upd})
	case "class":
		w.mu.Lock()
		w.classBurst = true
		w.mu.Unlock()
		w.c.Probe("poller_class_fetch_served")
		w.logf("answer %s: class definitions are served", r.key)
		w.release(r, resp{})
	}
}

func (p *pcWorld) pcRequestOptions(r *req) []option {
	if p.pf != nil {
		return p.pcFeederOptions(r)
	}
	if r.cancelled() {
		return []option{{"ctxerr", 20, func() { p.answerPc(r, "ctxerr") }}, {"ok", 3, func() { p.answerPc(r, "ok") }}}
	}
	opts := []option{{"ok", 12, func() { p.answerPc(r, "ok") }}}
	if p.w.cfg.errs {
		opts = append(opts, option{"err", 2, func() { p.answerPc(r, "err") }})
	}
	return opts
}

func isPc(kind string) bool { return kind == "pclatest" || kind == "pcnum" || kind == "class" }

func (p *pcWorld) c20Options(ps []*req) []option {
	w := p.w
	var opts []option
	pcParked := false
	for _, r := range ps {
		var ro []option
		if isPc(r.kind) {
			pcParked = true
			ro = p.pcRequestOptions(r)
		} else {
			ro = w.requestOptions(r)
		}
		if len(ro) == 0 {
			continue
		}
		gw := 12
		if r.kind == "block" || r.kind == "latest" {
			gw = 5 // mostly the at-tip retry loop of the committed side
		}
		if r.cancelled() {
			gw = 20
		}
		opts = append(opts, option{r.key, gw, func() { w.choose("variant", ro) }})
	}
	// The clock advances by one poll interval, and only while the poller is idle: its ticker must
	// never hold a pending tick when its context is cancelled (a select with two ready cases).
	if !pcParked {
		opts = append(opts, option{"tick", 8, func() { w.sleep("one pre-confirmed poll interval", w.cfg.interval) }})
	}
	for _, o := range w.envOptions() {
		o := o
		do := o.do
		reset := o.name == "reorg"
		o.do = func() { do(); p.pcAlign(reset) }
		o.weight = 1
		opts = append(opts, o)
	}
	opts = append(opts, p.pcEnvOptions()...)
	return append(opts, p.readerOptions(func() int { return len(w.local) - 1 })...)
}

func drawC20Config(c *sim.Ctx) config {
	t := c.T
	cfg := drawConfig(c, true)
	cfg.interval = [...]time.Duration{7013 * time.Millisecond, 20013 * time.Millisecond, 45013 * time.Millisecond}[t.Draw("pc.interval", 3)]
	cfg.initLen = 1 + t.Draw("c20.init", 6)
	cfg.presync = cfg.initLen
	if t.Draw("c20.presync", 4) == 0 {
		cfg.presync = t.Draw("c20.presync.n", cfg.initLen+1)
	}
	cfg.maxChain = 12
	cfg.maxReorgs = 2
	cfg.steps = t.Range("c20.steps", 40, 300)
	// the committed side serves valid blocks only; its faults are C06's subject
	cfg.corrupt, cfg.staleLat, cfg.flap, cfg.staleVer = false, false, false, false
	cfg.ticks = false
	drawC20Feeder(c, &cfg)
	return cfg
}

func c20Sync(c *sim.Ctx) {
	cfg := drawC20Config(c)
	w := newWorld(c, cfg)
	w.noSyncOracle = true
	w.logConfig()
	g := w.drv.g
	p := &pcWorld{w: w, m: newPcModel(c.T, g.Addrs, g.Slots)}
	p.bc = w.bc
	w.classDefs = p.m.classes
	p.canon = func() []*chaingen.Block {
		out := make([]*chaingen.Block, len(w.local))
		for i, s := range w.local {
			out[i] = s.b
		}
		return out
	}
	p.take = func() (preconfirmed.ChainReader, error) { return w.syn.PreConfirmedChain() }
	if w.fg != nil {
		p.initFeeder()
	}
	p.pcAlign(false)
	func() {
		defer w.shutdown()
		w.startNode()
		p.feed = w.syn.SubscribePreConfirmed()
		defer p.feed.Unsubscribe()
		for w.step = 1; w.step <= cfg.steps; w.step++ {
			ps := w.settle()
			before := w.storesN + w.revertsN
			w.observeChain()
			p.drainFeed()
			if w.storesN+w.revertsN != before {
				for _, r := range ps {
					if isPc(r.kind) {
						c.Probe("head_moved_while_poller_call_parked")
					}
				}
			}
			if p.pf != nil {
				p.pf.syncClasses()
			}
			w.choose("sched", p.c20Options(ps))
		}
		w.settle()
		w.observeChain()
		p.finalInspect()
	}()
	w.mu.Lock()
	pn, st := w.runPanic, w.runStack
	w.mu.Unlock()
	if pn != "" {
		c.Fail("panic", "sync_goroutine:"+panicSite(pn+"\n"+st), "Synchronizer.Run panicked: %s\n%s", pn, st)
	}
	p.finish("sync")
}

func (p *pcWorld) finish(class string) {
	w := p.w
	c := w.c
	checked := 0
	for _, v := range p.views {
		checked += v.checks
	}
	c.Nontrivial = p.nViews >= 2 && c.Evals >= 4
	c.Sample = map[string]any{
		"class": class, "gomaxprocs": w.cfg.gomaxprocs, "views_taken": p.nViews, "pre_confirmed_txs_generated": len(p.m.allTx),
		"rounds": p.m.nIdent, "classes_declared": p.m.nClass, "stores": w.storesN, "reverts": w.revertsN, "steps": w.cfg.steps,
	}
	if p.pf != nil {
		p.pf.finish()
	}
	c.Logf("end: class=%s views=%d txs=%d rounds=%d stores=%d reverts=%d at +%s", class, p.nViews, len(p.m.allTx), p.m.nIdent, w.storesN, w.revertsN, w.rel())
}

// C20 is one simulated run: either the synchronizer-driven class (real Poller inside the real
// Synchronizer) or the direct-drive class (the real ChainStorage driven through its API).
func C20(c *sim.Ctx) {
	direct := c.T.Draw("class.direct", 3) == 2
	// development/self-test aid (never set by the check driver's props): JSIM_KNOB_c20_class pins the
	// class without changing the tape layout
	switch c.Knobs["c20_class"] {
	case "direct", "coop":
		direct = true
	case "sync":
		direct = false
	}
	if direct {
		c20Direct(c)
		return
	}
	c20Sync(c)
}

var _ = fmt.Sprintf
var _ core.Block
