package syncworld

import (
	"testing"

	"jsim/sim"
)

func TestWorker(t *testing.T) {
	sim.WorkerMain(t, map[string]sim.Harness{
		"C06": C06,
		"C20": C20,
	}, map[string]sim.Options{
		"C06": {Bubble: true, PanicIsViolation: true},
		"C20": {Bubble: true, PanicIsViolation: true},
	})
}
