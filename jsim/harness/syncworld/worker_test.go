package syncworld

import (
	"testing"

	"jsim/sim"
)

func TestWorker(t *testing.T) {
	sim.WorkerMain(t, map[string]sim.Harness{
		"C06": C06,
	}, map[string]sim.Options{
		"C06": {Bubble: true, PanicIsViolation: true},
	})
}
