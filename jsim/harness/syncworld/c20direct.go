package syncworld

import (
	"github.com/NethermindEth/juno/core"
	"github.com/NethermindEth/juno/core/felt"
	"github.com/NethermindEth/juno/core/pending"
	"github.com/NethermindEth/juno/starknet"
	"github.com/NethermindEth/juno/sync/preconfirmed"

	"jsim/chaingen"
	"jsim/refstate"
	"jsim/sim"
)

// c20Direct drives the real preconfirmed.ChainStorage through its API in tape order (ApplyUpdate,
// AdvanceTo, SnapshotForBlock) while the canonical head under it is moved by direct stores, reverts
// and fork replacements, with reader steps in between. In the plain sub-class no goroutines are
// involved; in the cooperative sub-class (c20coop.go) some reader steps run on a goroutine of their own
// that is interleaved with the writer driver at the atomic operations of chain_storage.go.
//
// Class definitions: with every update the driver attaches what the poller would (definitions of classes
// the targeted block declares: all, none or a part), so that slots carry registered definitions when a
// same-round re-poll or a NEW round replaces them; what then resolves through a view is classReads' subject.
func c20Direct(c *sim.Ctx) {
	t := c.T
	cfg := config{gomaxprocs: 0, newState: t.Draw("newstate", 2) == 1, maxChain: 12, maxReorgs: 0}
	cfg.initLen = 3 + t.Draw("d.init", 6)
	cfg.presync = 1 + t.Draw("d.presync", cfg.initLen)
	cfg.steps = t.Range("d.steps", 20, 160)
	coopOn := t.Draw("d.coop", 3) != 0 // 0 = the plain sub-class (every reader step is atomic)
	switch c.Knobs["c20_class"] {
	case "coop":
		coopOn = true
	case "direct":
		coopOn = false
	}
	w := newWorld(c, cfg)
	var co *coop // nil in the plain sub-class; its methods tolerate that
	if coopOn {
		co = newCoop(w)
	}
	c.Logf("cfg: class=direct cooperative=%v newstate=%v canonical_pool=%d stored=%d steps=%d gen=%+v", coopOn, cfg.newState, cfg.initLen, cfg.presync, cfg.steps, w.drv.opts)
	g := w.drv.g
	p := &pcWorld{w: w, m: newPcModel(t, g.Addrs, g.Slots), bc: w.bc}
	m := p.m
	stg := preconfirmed.NewChainStorage()
	pool := w.cur.chain // blocks that may still be stored on top of the current head, by height
	canonNow := func() []*chaingen.Block {
		out := make([]*chaingen.Block, len(w.local))
		for i, s := range w.local {
			out[i] = s.b
		}
		return out
	}
	p.canon = canonNow
	head := func() int { return len(w.local) - 1 }
	p.take = func() (preconfirmed.ChainReader, error) { return stg.SnapshotForBlock(uint64(head() + 1)), nil }

	// bounds of what the storage holds now, found by probing
	bounds := func() (lo, hi int, ok bool) {
		for k := 0; k <= 40; k++ {
			if s := stg.SnapshotForBlock(uint64(k)); s.Length() > 0 {
				return k, k + s.Length() - 1, true
			}
		}
		return 0, 0, false
	}
	storeBlock := func(b *chaingen.Block) {
		pl := cleanPayload(b)
		comm, err := w.bc.SanityCheckNewHeight(pl.b, pl.su, pl.classes)
		if err == nil {
			err = w.bc.Store(pl.b, comm, pl.su, pl.classes)
		}
		if err != nil {
			c.Broken("direct class: storing canonical block %d: %v", b.B.Number, err)
		}
		w.local = append(w.local, stored{b: b})
		co.headMoved(head())
	}
	// pickDefs: the definitions a caller of ApplyUpdate attaches for the declared class hashes hs (sorted).
	// ApplyUpdate's contract is that newClasses holds definitions of classes the targeted block declares (the
	// poller passes what fetchDeclaredClasses returns), so nothing else is ever attached. mode 0: all of
	// them, 1: none, 2: those at even positions, 3: those at odd positions (a later registration completes
	// an earlier partial one).
	pickDefs := func(hs []felt.Felt, mode int) map[felt.Felt]core.ClassDefinition {
		out := map[felt.Felt]core.ClassDefinition{}
		for i, h := range hs {
			if mode == 0 || (mode == 2 && i%2 == 0) || (mode == 3 && i%2 == 1) {
				out[h] = m.classes[h]
			}
		}
		if len(out) == 0 {
			return nil
		}
		return out
	}
	classesOf := func(r *pcRound, upto int, mode int) map[felt.Felt]core.ClassDefinition {
		decl := map[felt.Felt]bool{}
		for _, x := range r.txs[:upto] {
			for h := range x.diff.DeclaredV1Classes {
				decl[h] = true
			}
		}
		return pickDefs(refstate.SortedFelts(decl), mode)
	}
	baseState := func() *refstate.State { return w.localTip().Post }
	ensureRound := func(n uint64) *pcRound {
		if r := m.rounds[n]; r != nil {
			return r
		}
		return m.newRound(n, w.localTip().Version, m.stateBelow(baseState(), n), t.Draw("d.ntx", 4))
	}
	apply := func(what string, upd starknet.PreConfirmedUpdate, n, txc, oldest uint64, cls map[felt.Felt]core.ClassDefinition) {
		var aff *pending.PreConfirmed
		var err error
		co.writerCall(func() { aff, err = stg.ApplyUpdate(upd, n, txc, oldest, cls) })
		switch {
		case err != nil:
			c.Probe("direct_update_rejected")
			w.logf("direct: ApplyUpdate(%s, block %d, txc %d, oldest %d, %d classes) rejected: %v", what, n, txc, oldest, len(cls), err)
		case aff == nil:
			w.logf("direct: ApplyUpdate(%s, block %d, txc %d, oldest %d, %d classes): no-op", what, n, txc, oldest, len(cls))
		default:
			p.noteRegistered(aff)
			w.logf("direct: ApplyUpdate(%s, block %d, txc %d, oldest %d, %d classes): slot %d round %s now %d txs, %d classes",
				what, n, txc, oldest, len(cls), aff.Block.Number, aff.BlockIdentifier, len(aff.Block.Transactions), len(aff.NewClasses))
		}
	}

	// writerOpts lists what the writer driver (canonical head included) can do next. race: the list is
	// for the cooperative scheduler, i.e. a reader action is parked at a yield point; the actions that
	// move the stored run away from that reader's height get more weight there.
	writerOpts := func(race bool) []option {
		lo, hi, has := bounds()
		var opts []option
		add := func(name string, weight int, do func()) { opts = append(opts, option{name, weight, do}) }
		rw := func(plain, racing int) int {
			if race {
				return racing
			}
			return plain
		}
		// ---- canonical head
		if h := head() + 1; h < len(pool) && pool[h].B.ParentHash.Equal(w.localTip().B.Hash) {
			add("head.store", rw(3, 5), func() {
				storeBlock(pool[h])
				w.storesN++
				w.logf("direct: canonical head advances to %d", head())
			})
		}
		if head() >= 1 {
			add("head.revert", 2, func() {
				if err := w.bc.RevertHead(); err != nil {
					c.Broken("direct class: RevertHead: %v", err)
				}
				w.local = w.local[:len(w.local)-1]
				co.headMoved(head())
				w.revertsN++
				w.logf("direct: canonical head reverted to %d", head())
			})
			add("head.fork", 2, func() {
				if err := w.bc.RevertHead(); err != nil {
					c.Broken("direct class: RevertHead: %v", err)
				}
				w.local = w.local[:len(w.local)-1]
				co.headMoved(head())
				w.drv.newFork()
				w.drv.rewindTo(w.localTip())
				b := w.drv.next(w.localTip())
				np := append(append([]*chaingen.Block(nil), canonNow()...), b)
				for len(np) < len(pool) && len(np) < cfg.maxChain {
					np = append(np, w.drv.next(np[len(np)-1]))
				}
				pool = np
				storeBlock(b)
				w.revertsN++
				c.Fault("head_replaced_by_fork")
				w.logf("direct: canonical head %d replaced by a block of another fork %s", head(), short(b.B.Hash))
			})
		}
		// ---- writer
		add("advance", rw(4, 9), func() {
			n := uint64(head() + 1)
			if t.Draw("d.adv.odd", 5) == 0 && has {
				n = uint64(max(0, lo-1+t.Draw("d.adv.n", hi-lo+4)))
			}
			var ok bool
			co.writerCall(func() { ok = stg.AdvanceTo(n) })
			w.logf("direct: AdvanceTo(%d) = %v", n, ok)
		})
		add("apply.full", 6, func() {
			oldest := uint64(head() + 1)
			n := oldest
			if has {
				switch t.Draw("d.full.at", 8) {
				case 0:
					n = uint64(hi + 2) // gap above the tip
				case 1:
					n = uint64(max(0, lo-1)) // below the oldest slot
				case 2, 3:
					n = uint64(lo + t.Draw("d.full.slot", hi-lo+1)) // replace a slot
				case 4:
					n = uint64(hi) // same or new round at the tip
				default:
					n = uint64(hi + 1) // extend
				}
			} else if t.Draw("d.full.off", 6) == 0 {
				n = oldest + 1
			}
			if t.Draw("d.oldest.off", 10) == 0 {
				oldest++
			}
			if n > 30 {
				return
			}
			if t.Draw("d.newround", 3) == 0 {
				delete(m.rounds, n)
				c.Fault("pc_new_round")
			}
			r := ensureRound(n)
			k := len(r.txs)
			if k > 0 && t.Draw("d.prefix", 3) == 0 {
				k = t.Draw("d.prefix.n", k+1)
			}
			cls := classesOf(r, k, t.Draw("d.cls", 3))
			apply("full "+r.ident, r.prefix(k), n, uint64(t.Draw("d.txc", 3)), oldest, cls)
		})
		if has {
			add("apply.delta", 5, func() {
				tip := ptr(stg.SnapshotForBlock(uint64(hi))).Head()
				n := uint64(hi)
				if t.Draw("d.delta.nontip", 8) == 0 && hi > lo {
					n = uint64(lo)
					tip = collect(ptr(stg.SnapshotForBlock(uint64(lo))))[0]
				}
				r := m.rounds[n]
				if r == nil || r.ident != tip.BlockIdentifier {
					w.logf("direct: no delta possible: the sequencer has moved slot %d to another round", n)
					return
				}
				have := len(tip.Block.Transactions)
				if len(r.txs) <= have {
					st := m.stateThrough(baseState(), n)
					for i := 0; i < 1+t.Draw("d.delta.n", 2); i++ {
						m.extend(r, st)
					}
				}
				if have > len(r.txs) {
					return
				}
				txc := uint64(have)
				if t.Draw("d.delta.badtxc", 8) == 0 {
					txc++
				}
				cls := classesOf(r, len(r.txs), t.Draw("d.cls", 3))
				c.Fault("pc_delta")
				apply("delta "+r.ident, r.delta(have), n, txc, uint64(head()+1), cls)
			})
			add("apply.nochange", 3, func() {
				n := uint64(hi)
				if t.Draw("d.nc.nontip", 8) == 0 && hi > lo {
					n = uint64(lo)
				}
				// what the poller attaches to a no-change: the definitions of the classes the STORED entry of
				// that slot declares (all of them, or the part an earlier registration left out)
				var cls map[felt.Felt]core.ClassDefinition
				if mode := t.Draw("d.nc.cls", 3); mode != 0 {
					if es := collect(ptr(stg.SnapshotForBlock(n))); len(es) > 0 && es[0].StateUpdate != nil && es[0].StateUpdate.StateDiff != nil {
						cls = pickDefs(refstate.SortedFelts(es[0].StateUpdate.StateDiff.DeclaredV1Classes), map[int]int{1: 0, 2: 3}[mode])
					}
				}
				apply("no-change", starknet.PreConfirmedNoChange{}, n, 0, uint64(head()+1), cls)
			})
		}
		return opts
	}
	racing := func() []option { return writerOpts(true) }
	for w.step = 1; w.step <= cfg.steps; w.step++ {
		opts := append(writerOpts(false), p.readerOptions(head)...)
		if co != nil {
			opts = append(opts, p.raceOptions(co, stg, head, racing)...)
		}
		w.choose("op", opts)
	}
	p.finalInspect()
	p.finish("direct")
}

func ptr[T any](x T) *T { return &x }
