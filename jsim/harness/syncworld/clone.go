package syncworld

import (
	"reflect"

	"github.com/NethermindEth/juno/core"
)

// deepCopy copies v recursively through pointers, slices, maps, interfaces and exported struct
// fields. Unexported fields (bloom filter internals, big.Int) are shared: nothing mutates them.
func deepCopy(v reflect.Value) reflect.Value {
	switch v.Kind() {
	case reflect.Ptr:
		if v.IsNil() {
			return v
		}
		n := reflect.New(v.Type().Elem())
		n.Elem().Set(deepCopy(v.Elem()))
		return n
	case reflect.Interface:
		if v.IsNil() {
			return v
		}
		n := reflect.New(v.Type()).Elem()
		n.Set(deepCopy(v.Elem()))
		return n
	case reflect.Slice:
		if v.IsNil() {
			return v
		}
		n := reflect.MakeSlice(v.Type(), v.Len(), v.Len())
		for i := 0; i < v.Len(); i++ {
			n.Index(i).Set(deepCopy(v.Index(i)))
		}
		return n
	case reflect.Array:
		n := reflect.New(v.Type()).Elem()
		for i := 0; i < v.Len(); i++ {
			n.Index(i).Set(deepCopy(v.Index(i)))
		}
		return n
	case reflect.Map:
		if v.IsNil() {
			return v
		}
		n := reflect.MakeMapWithSize(v.Type(), v.Len())
		it := v.MapRange()
		for it.Next() {
			n.SetMapIndex(deepCopy(it.Key()), deepCopy(it.Value()))
		}
		return n
	case reflect.Struct:
		n := reflect.New(v.Type()).Elem()
		n.Set(v)
		for i := 0; i < v.NumField(); i++ {
			if n.Field(i).CanSet() {
				n.Field(i).Set(deepCopy(v.Field(i)))
			}
		}
		return n
	default:
		return v
	}
}

func Clone[T any](x T) T {
	return deepCopy(reflect.ValueOf(&x).Elem()).Interface().(T)
}

func CloneBlock(b *core.Block) *core.Block                   { return Clone(b) }
func CloneStateUpdate(s *core.StateUpdate) *core.StateUpdate { return Clone(s) }
