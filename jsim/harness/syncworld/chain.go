package syncworld

import (
	"github.com/NethermindEth/juno/core/felt"

	"jsim/chaingen"
	"jsim/sim"
)

// chainDriver generates blocks and forks from the tape and keeps the protocol-version schedule
// (copied from harness/node/engine.go).
type chainDriver struct {
	c       *sim.Ctx
	g       *chaingen.Gen
	verIdx  int
	forkID  uint64
	opts    chaingen.Opts
	bumpDen int
	post    func(*chaingen.Block) // feeder class: rewrites the block before anything is built on it
}

func newChainDriver(c *sim.Ctx) *chainDriver {
	d := &chainDriver{c: c, g: chaingen.New()}
	d.verIdx = c.T.Draw("version0", len(chaingen.Versions))
	d.bumpDen = 3 + c.T.Draw("version.bump", 6)
	d.opts = chaingen.Opts{MaxTxs: 1 + c.T.Draw("max.txs", 3), MaxDiff: 2 + c.T.Draw("max.diff", 5), MaxEvents: c.T.Draw("max.events", 3)}
	return d
}

// next generates the successor of parent on the current fork.
func (d *chainDriver) next(parent *chaingen.Block) *chaingen.Block {
	if parent != nil {
		for i, v := range chaingen.Versions {
			if v == parent.Version && i > d.verIdx {
				d.verIdx = i
			}
		}
	}
	if d.verIdx < len(chaingen.Versions)-1 && d.c.T.Draw("version.up", d.bumpDen) == d.bumpDen-1 {
		// The commitment formula changes at 0.14.0 only for states whose class trie is empty; the
		// generator crosses that boundary only when a Sierra class exists (as real networks did).
		crossing := chaingen.Versions[d.verIdx] < "0.14.0" && chaingen.Versions[d.verIdx+1] >= "0.14.0"
		if !crossing || (parent != nil && len(parent.Post.ClassLeaves()) > 0) {
			d.verIdx++
		}
	}
	o := d.opts
	o.Version = chaingen.Versions[d.verIdx]
	o.Salt = d.forkID
	b := d.g.Next(d.c.T, parent, o)
	if d.post != nil {
		d.post(b)
	}
	return b
}

func (d *chainDriver) newFork() { d.forkID++ }

func verIndex(v string) int {
	for i, x := range chaingen.Versions {
		if x == v {
			return i
		}
	}
	return 0
}

// rewindTo makes the version schedule consistent with a fork point.
func (d *chainDriver) rewindTo(parent *chaingen.Block) {
	if parent == nil {
		d.verIdx = d.c.T.Draw("version0", len(chaingen.Versions))
		return
	}
	d.verIdx = verIndex(parent.Version)
}

// version is one immutable snapshot of the source's chain. Blocks are shared by pointer between
// versions with a common prefix; a block object is generated once and never regenerated, so pointer
// identity is block identity.
type version struct {
	id    int
	chain []*chaingen.Block
}

func (v *version) has(b *chaingen.Block) bool {
	n := int(b.B.Number)
	return n < len(v.chain) && v.chain[n] == b
}

func (v *version) tip() *chaingen.Block { return v.chain[len(v.chain)-1] }

func short(f *felt.Felt) string {
	if f == nil {
		return "nil"
	}
	s := f.String()
	if len(s) > 10 {
		return s[:10]
	}
	return s
}
