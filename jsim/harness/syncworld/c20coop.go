package syncworld

import (
	"errors"
	"fmt"
	"os"
	"runtime"
	"runtime/debug"
	"strings"

	"github.com/NethermindEth/juno/core"
	"github.com/NethermindEth/juno/core/felt"
	"github.com/NethermindEth/juno/core/pending"
	"github.com/NethermindEth/juno/sync/preconfirmed"

	"jsim/sim"
)

// ---- cooperative two-party scheduler (sub-class of the direct-drive class) -----------------------
//
// The build overlay of this package (overlay.py + yieldgen) puts a call of preconfirmed.SimYield in
// front of (and, where possible, behind) every statement of sync/preconfirmed that performs an atomic
// operation. While a reader action runs under the scheduler the hook is set:
//
//   - the reader action runs on its own goroutine; at every yield point it parks (unbuffered channel
//     hand-off to the driver goroutine) and the tape decides whether it continues or the writer driver
//     performs its next action first (a head move, AdvanceTo, ApplyUpdate ...), any number of them up to
//     a budget;
//   - a writer action started that way may itself be preemptible: then at each of ITS yield points
//     (the driver goroutine is inside ApplyUpdate/AdvanceTo) the tape decides whether the writer
//     continues or the parked reader runs up to its next yield point.
//
// Exactly one of the two goroutines runs at any time and control only changes hands through the two
// channels, so the execution is a pure function of the tape whatever GOMAXPROCS is. Outside a reader
// action the hook is nil and the package under test behaves as if it had not been instrumented.
// Yield points seen on the driver goroutine outside a writer call (the harness' own probing of the
// storage with SnapshotForBlock) are ignored.

type coParty int

const (
	coDriver coParty = iota
	coReader
)

type coMsg int

const (
	coGo coMsg = iota
	coAbort
)

type coop struct {
	w   *world
	c   *sim.Ctx
	act *coAction // the reader action in progress, nil outside
	cur coParty   // which goroutine runs now
	n   int       // reader actions so far

	// writer call in progress on the driver goroutine (inside a writer action started by the scheduler)
	inWriter    bool
	preemptible bool
	wYields     int   // yield points the writer call has hit
	wReaderAt   []int // indices of those at which a reader segment ran
}

type coAction struct {
	id     int
	kind   string
	parked chan string   // reader -> driver: parked at this site
	resume chan coMsg    // driver -> reader
	exited chan struct{} // closed when the reader goroutine has ended
	done   bool
	at     string // where the reader is parked

	panicVal   any
	panicStack string

	yields     int // park points of the reader so far
	repoYields int // those inside the package under test
	switches   int // scheduler decisions that did not simply continue the running party
	budget     int
	heads      []int // every canonical head current at some instant of the action, in order
	writerAt   []int // reader park indices at which a writer action was started
	writerRan  int
}

const coMaxYields = 2000

func newCoop(w *world) *coop { return &coop{w: w, c: w.c} }

func (a *coAction) noteHead(h int) {
	if a.heads[len(a.heads)-1] != h {
		a.heads = append(a.heads, h)
	}
}

// headMoved is called by the head actions after every change of the canonical chain.
func (s *coop) headMoved(h int) {
	if s != nil && s.act != nil {
		s.act.noteHead(h)
	}
}

// hook is preconfirmed.SimYield while a reader action is in progress.
func (s *coop) hook(site string) {
	a := s.act
	if a == nil {
		return
	}
	if s.cur == coReader {
		a.repoYields++
		a.park(site)
		return
	}
	if s.inWriter {
		s.writerYield(site)
	}
}

// park runs on the reader goroutine: hand control to the driver, wait to be resumed.
func (a *coAction) park(site string) {
	a.parked <- site
	if <-a.resume == coAbort {
		runtime.Goexit()
	}
}

// stepReader lets the reader run up to its next yield point (or to the end of its action).
func (s *coop) stepReader() {
	a := s.act
	s.cur = coReader
	a.resume <- coGo
	select { // exactly one of the two becomes ready: the reader parks or ends
	case a.at = <-a.parked:
		a.yields++
	case <-a.exited:
		a.done = true
	}
	s.cur = coDriver
	if a.yields > coMaxYields {
		s.c.Broken("cooperative scheduler: reader action %s hit more than %d yield points", a.kind, coMaxYields)
	}
}

// writerYield runs on the driver goroutine inside a ChainStorage writer call.
func (s *coop) writerYield(site string) {
	a := s.act
	idx := s.wYields
	s.wYields++
	if !s.preemptible || a.done {
		return
	}
	// the later the yield point within the call, the likelier the switch, so that each of the (2..4)
	// yield points of a writer call is about equally likely to be the first one the reader runs at
	den := max(2, 4-idx)
	for !a.done && a.switches < a.budget {
		if s.c.T.Draw("co.wsched", den) != den-1 {
			s.w.logf("co: writer at %s continues", site)
			return
		}
		a.switches++
		s.wReaderAt = append(s.wReaderAt, idx)
		from := a.at
		s.stepReader()
		if a.done {
			s.w.logf("co: writer parked at %s; reader runs from %s to the end of its action", site, from)
		} else {
			s.w.logf("co: writer parked at %s; reader runs from %s to %s", site, from, a.at)
		}
	}
}

// writerCall wraps one ApplyUpdate/AdvanceTo call of a writer action.
func (s *coop) writerCall(fn func()) {
	if s == nil || s.act == nil {
		fn()
		return
	}
	s.inWriter, s.wYields, s.wReaderAt = true, 0, nil
	defer func() { s.inWriter = false }()
	fn()
	for _, i := range s.wReaderAt {
		if i > 0 && i < s.wYields-1 {
			s.c.Probe("reader_ran_between_yield_points_of_a_writer_action")
			break
		}
	}
}

// run executes one reader action under the scheduler. body runs on the reader goroutine and must not
// touch the tape, the trace or the oracle; writerOpts lists the writer driver's possible next actions.
func (s *coop) run(kind string, body func(a *coAction), head func() int, writerOpts func() []option) *coAction {
	w, c, t := s.w, s.c, s.c.T
	s.n++
	a := &coAction{id: s.n, kind: kind, parked: make(chan string), resume: make(chan coMsg), exited: make(chan struct{}), heads: []int{head()}}
	a.budget = 1 + t.Draw("co.budget", 5)
	s.act, s.cur = a, coDriver
	preconfirmed.SimYield = s.hook
	started := false
	defer func() {
		if started && !a.done { // the run is ending (violation, machinery trouble) with the reader parked
			a.resume <- coAbort
			<-a.exited
		}
		preconfirmed.SimYield = nil
		s.act, s.inWriter, s.preemptible = nil, false, false
	}()
	go func() {
		defer close(a.exited)
		defer func() {
			if r := recover(); r != nil {
				a.panicVal, a.panicStack = r, string(debug.Stack())
			}
		}()
		if <-a.resume == coAbort {
			return
		}
		body(a)
	}()
	started = true
	w.logf("co: reader action #%d (%s) starts at canonical head %d, budget %d", a.id, kind, a.heads[0], a.budget)
	s.stepReader()
	for !a.done {
		for !a.done && a.switches < a.budget {
			ch := t.Draw("co.sched", 6)
			if ch < 3 {
				break
			}
			a.switches++
			a.writerRan++
			a.writerAt = append(a.writerAt, a.yields-1)
			s.preemptible = ch >= 4
			c.Fault("reader_preempted_at_atomic")
			w.logf("co: reader parked at %s; the writer driver acts (preemptible=%v)", a.at, s.preemptible)
			w.choose("co.wop", writerOpts())
			s.preemptible = false
		}
		if a.done {
			break
		}
		w.logf("co: reader continues from %s", a.at)
		s.stepReader()
	}
	if a.panicVal != nil {
		site, inRepo := repoFrame(a.panicStack)
		if inRepo {
			c.Fail("panic", "reader_goroutine:"+site, "reader action %s panicked: %v\n%s", kind, a.panicVal, a.panicStack)
		}
		c.Broken("reader action %s panicked in the harness: %v\n%s", kind, a.panicVal, a.panicStack)
	}
	for _, i := range a.writerAt {
		if i+1 < a.yields {
			c.Probe("writer_ran_between_yield_points_of_a_reader_action")
			break
		}
	}
	if len(a.heads) > 1 {
		c.Probe("head_moved_during_reader_action")
	}
	w.logf("co: reader action #%d ends: %d yield points, %d writer actions in between, canonical heads %v", a.id, a.yields, a.writerRan, a.heads)
	return a
}

// repoFrame finds the innermost frame of a recorded stack that lies in the repository under test.
func repoFrame(st string) (string, bool) {
	roots := []string{"/repo/"}
	if alt := os.Getenv("JSIM_REPO"); alt != "" {
		roots = append(roots, strings.TrimRight(alt, "/")+"/")
	}
	lines := strings.Split(st, "\n")
	seenPanic := false
	for i := 0; i+1 < len(lines); i++ {
		l := lines[i]
		if strings.HasPrefix(l, "panic(") || strings.HasPrefix(l, "runtime.gopanic") {
			seenPanic = true
			continue
		}
		if !seenPanic || strings.HasPrefix(l, "\t") || strings.HasPrefix(l, "goroutine ") || l == "" {
			continue
		}
		loc := strings.TrimSpace(lines[i+1])
		if strings.HasPrefix(l, "runtime.") || strings.Contains(loc, "/src/runtime/") {
			continue
		}
		name := l
		if k := strings.LastIndex(name, "("); k > 0 {
			name = name[:k]
		}
		for _, r := range roots {
			if strings.HasPrefix(loc, r) {
				return name, true
			}
		}
		return name, false
	}
	return "?", false
}

// ---- reader actions ------------------------------------------------------------------------------

// raceOptions are the reader steps of the cooperative sub-class.
func (p *pcWorld) raceOptions(s *coop, stg *preconfirmed.ChainStorage, head func() int, writerOpts func() []option) []option {
	opts := []option{{"race.take", 9, func() { p.raceTake(s, stg, head, writerOpts) }}}
	if len(p.views) > 0 {
		pick := func() *viewRec { return p.views[p.w.c.T.Draw("rd.view", len(p.views))] }
		opts = append(opts, option{"race.inspect", 2, func() { p.raceInspect(s, pick(), head, writerOpts) }})
		opts = append(opts, option{"race.lookup", 1, func() { p.raceLookup(s, pick(), head, writerOpts) }})
	}
	return opts
}

// raceTake: what Synchronizer.PreConfirmedChain does - read the canonical head, then
// SnapshotForBlock(head+1) - with the writer driver acting at the yield points in between.
func (p *pcWorld) raceTake(s *coop, stg *preconfirmed.ChainStorage, head func() int, writerOpts func() []option) {
	w, c := p.w, p.w.c
	var view preconfirmed.ChainReader
	var early *viewSnap
	readHead := -1
	a := s.run("take", func(a *coAction) {
		readHead = head()
		view = stg.SnapshotForBlock(uint64(readHead + 1))
		// what the reader sees now; the driver may be in the middle of a writer call
		early = snapView(&view)
	}, head, writerOpts)
	if a.repoYields == 0 {
		// nothing in SnapshotForBlock is an atomic operation any more: the action ran without a switch
		// point, which is what the plain reader step already covers
		c.Inconclusive++
		w.logf("co: SnapshotForBlock hit no yield point")
	}
	if readHead != a.heads[0] {
		c.Broken("cooperative scheduler: the reader read head %d, the action started at head %d", readHead, a.heads[0])
	}
	w.logf("co: reader asked for the view above head %d, got length %d", readHead, view.Length())
	before := p.nViews
	p.checkTaken(view, a.heads, early)
	if p.nViews > before && a.writerRan > 0 {
		c.Probe("view_taken_while_the_writer_acted")
	}
}

// raceInspect: a reader walks a view it holds, parking after every entry, while the writer acts.
func (p *pcWorld) raceInspect(s *coop, v *viewRec, head func() int, writerOpts func() []option) {
	w, c := p.w, p.w.c
	var got []*pending.PreConfirmed
	var fp strings.Builder
	length := 0
	var tip *pending.PreConfirmed
	a := s.run(fmt.Sprintf("inspect view#%d", v.id), func(a *coAction) {
		length = v.chain.Length()
		a.park("reader:before-walk")
		for e := range v.chain.OldestFirst() {
			got = append(got, e)
			fp.WriteString(canon(e))
			fp.WriteByte('|')
			a.park(fmt.Sprintf("reader:walked-entry-%d", len(got)))
		}
		tip = v.chain.Head()
	}, head, writerOpts)
	c.Evals++
	v.checks++
	if length != len(v.entries) || len(got) != len(v.entries) {
		c.Fail("view_mutated", "length", "view#%d (taken at step %d) had %d blocks; a walk interleaved with the writer reports length %d and iterates %d", v.id, v.step, len(v.entries), length, len(got))
	}
	for i := range got {
		if got[i] != v.entries[i] {
			c.Fail("view_mutated", "entry_replaced", "view#%d (taken at step %d): entry %d (block %d) is a different object in a walk interleaved with the writer", v.id, v.step, i, v.entries[i].Block.Number)
		}
	}
	if len(got) > 0 && tip != got[len(got)-1] {
		c.Fail("view_gap", "head", "Head() is not the newest entry of view#%d", v.id)
	}
	if f := fp.String(); f != v.fp {
		c.Fail("view_mutated", mutatedWhat(v.fp, f), "view#%d (taken at step %d) changed after it was handed out (seen by a walk interleaved with the writer): %s", v.id, v.step, firstDiff(v.fp, f))
	}
	if a.writerRan > 0 {
		c.Probe("view_walked_while_the_writer_acted")
	}
	w.logf("reader: view#%d walked with the writer interleaved, unchanged", v.id)
	p.reinspect(v)
}

// raceLookup: a reader looks up every transaction of a view it holds, parking between lookups.
func (p *pcWorld) raceLookup(s *coop, v *viewRec, head func() int, writerOpts func() []option) {
	w, c := p.w, p.w.c
	type res struct {
		e    *pending.PreConfirmed
		i    int
		tx   core.Transaction
		err  error
		rc   *core.TransactionReceipt
		num  uint64
		rerr error
	}
	var out []res
	var absentErr, absentRcErr error
	a := s.run(fmt.Sprintf("lookup view#%d", v.id), func(a *coAction) {
		a.park("reader:before-lookups")
	all:
		for _, e := range v.entries {
			for i, tx := range e.Block.Transactions {
				r := res{e: e, i: i}
				r.tx, r.err = v.chain.TransactionByHash(tx.Hash())
				a.park("reader:after-transaction-lookup")
				r.rc, r.num, r.rerr = v.chain.ReceiptByHash(tx.Hash())
				a.park("reader:after-receipt-lookup")
				out = append(out, r)
				if len(out) >= 6 {
					break all
				}
			}
		}
		var unknown felt.Felt
		unknown.SetUint64(0x123456789)
		_, absentErr = v.chain.TransactionByHash(&unknown)
		_, _, absentRcErr = v.chain.ReceiptByHash(&unknown)
	}, head, writerOpts)
	c.Evals++
	v.checks++
	for _, r := range out {
		want := r.e.Block.Transactions[r.i]
		if r.err != nil || r.tx != want {
			c.Fail("view_lookup", "transaction_of_view_not_found", "view#%d: TransactionByHash(%s) of block %d index %d (writer interleaved): %v", v.id, short(want.Hash()), r.e.Block.Number, r.i, r.err)
		}
		if r.rerr != nil || r.rc != r.e.Block.Receipts[r.i] || r.num != r.e.Block.Number {
			c.Fail("view_lookup", "receipt_of_view_not_found", "view#%d: ReceiptByHash(%s) of block %d index %d (writer interleaved): number=%d err=%v", v.id, short(want.Hash()), r.e.Block.Number, r.i, r.num, r.rerr)
		}
	}
	if !errors.Is(absentErr, pending.ErrTransactionNotFound) {
		c.Fail("view_lookup", "foreign_transaction_found", "view#%d: TransactionByHash(an unknown hash) returned err=%v (writer interleaved)", v.id, absentErr)
	}
	if !errors.Is(absentRcErr, pending.ErrTransactionReceiptNotFound) {
		c.Fail("view_lookup", "foreign_receipt_found", "view#%d: ReceiptByHash(an unknown hash) returned err=%v (writer interleaved)", v.id, absentRcErr)
	}
	if a.writerRan > 0 && len(out) > 0 {
		c.Probe("lookups_while_the_writer_acted")
	}
	w.logf("reader: view#%d lookups with the writer interleaved: %d found", v.id, len(out))
	p.reinspect(v)
}
