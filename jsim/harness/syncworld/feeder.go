package syncworld

// The "feeder class" of C06 runs. The Synchronizer gets the REAL data source stack
//
//	sync.NewFeederGatewayDataSource(bc, starknetdata/feeder.New(clients/feeder.NewClient(url, production options)))
//
// and the network below it is simulated: http.DefaultTransport (the feeder client uses http.DefaultClient,
// whose Transport is nil) is an in-memory RoundTripper that parks every request on the scheduler exactly like
// the DataSource seam of the other classes does, and answers it - when the scheduler releases it - with the
// JSON a feeder gateway would serve for that URL, rendered from the model source chain by package feedergen.
// Retries, backoff and the per-request timeout of the client run on the bubble's fake clock.
//
// Everything of the other classes is reused: the answers of world.go (truthful / chain version at call time /
// other fork / stale or flapping latest header) are produced as core values and translated to wire format in
// world.release; deliveries are recorded the same way, so I1-I5 and the tail run unchanged. This file adds
// the faults that only exist on the wire, the class endpoints, the clock options the client's timers need,
// and an oracle on class definitions (fetchUnknownClasses decides from the node's HEAD state, at fetch time,
// which definitions to download).

import (
	"bytes"
	"context"
	"errors"
	"fmt"
	"io"
	"net/http"
	"net/url"
	"reflect"
	"runtime"
	"runtime/debug"
	"sort"
	"strconv"
	"strings"
	"testing/synctest"
	"time"

	"github.com/NethermindEth/juno/clients/feeder"
	"github.com/NethermindEth/juno/core"
	"github.com/NethermindEth/juno/core/felt"
	adaptfeeder "github.com/NethermindEth/juno/starknetdata/feeder"
	jsync "github.com/NethermindEth/juno/sync"

	"jsim/chaingen"
	"jsim/feedergen"
	"jsim/refstate"
	"jsim/tape"
)

// feederCfg: what only the feeder class varies.
type feederCfg struct {
	timeouts    string // --gw-timeouts value; always ONE fixed value ("5s,"): see drawFeederCfg
	maxRetries  int    // 10 is the client's default
	timeoutF    bool   // requests held past the client's timeout
	garble      bool   // truncated / syntactically broken bodies
	jsonTamper  bool   // one committed field changed in the JSON text
	mixed       bool   // block and state update of different chain versions in one answer
	classFaults bool   // a class endpoint answers with another (verifiable) class
	wrongKind   bool   // a class endpoint answers a Sierra-declared hash with a Cairo 0 definition
	shape       bool   // well-formed JSON of the wrong shape ({} / null members)
}

func drawFeederCfg(t *tape.Tape, cfg *config) feederCfg {
	var fc feederCfg
	// The client's timeout is adaptive: every failed attempt - including one that failed because the stream
	// context was cancelled - moves an index into the --gw-timeouts list, every success moves it back. Whether
	// a fetcher issues its next request just before or just after the verifier cancels the stream context is a
	// race inside one scheduler step that no tape decides (world.settle hands such requests their context error
	// silently for that reason); with a list of several values that race would become visible as different
	// request deadlines. A single fixed value (a trailing comma, as the flag's documentation describes) keeps
	// the index without effect. The value itself varies between runs.
	fc.timeouts = []string{"5s,", "2s,", "20s,"}[t.Draw("fg.timeouts", 3)]
	fc.maxRetries = []int{10, 2, 0}[t.Draw("fg.retries", 3)]
	if cfg.faulty {
		on := func(l string) bool { return t.Chance(l, 1, 2) }
		fc.timeoutF = on("fg.f.timeout")
		fc.garble = on("fg.f.garble")
		fc.jsonTamper = on("fg.f.jsontamper")
		fc.mixed = on("fg.f.mixed")
		fc.classFaults = on("fg.f.class")
		fc.wrongKind = t.Chance("fg.f.wrongkind", 1, 4)
		fc.shape = t.Chance("fg.f.shape", 1, 8)
	}
	return fc
}

// ---- gateway -------------------------------------------------------------------------------------

// gorState: what one goroutine of the node is doing on the gateway. fetchUnknownClasses downloads the classes
// of a block one after the other in the iteration order of Go maps, i.e. in an order no tape decides. The
// class requests that follow one block answer are therefore treated as ONE burst: the first request parks
// (under a key without the class hash), the scheduler's answer to it decides the whole burst, the remaining
// requests of the burst are answered at once without parking. Which classes a burst asks for is known when
// the block is answered (the node reads its head state right then): unknown.
type gorState struct {
	block    uint64 // number of the last block this goroutine asked for
	hasBlock bool
	url      string
	fails    int

	unknown   []felt.Felt        // classes the node will ask for after the last block answer (ascending)
	sierra    map[felt.Felt]bool // classes the answered state diff declares as Sierra classes
	want      felt.Felt          // class hash of the parked first request of the burst
	open      bool               // the burst has been decided: answer without parking
	hasTarget bool
	target    felt.Felt // the class for which subst's definition is served
	subst     felt.Felt
}

type judged struct {
	class    felt.Felt
	by       *chaingen.Block // block of the node's chain that declares the class
	fetchOf  *chaingen.Block // block whose fetch skipped the class
	step     int
	reverted bool
}

type gateway struct {
	w       *world
	saved   http.RoundTripper
	client  *feeder.Client
	classes map[felt.Felt]core.ClassDefinition // every class of every generated block
	gor     map[uint64]*gorState               // guarded by w.mu
	backoff []time.Duration                    // candidate instants (relative to w.start) at which a client backoff may end
	judged  []*judged
	inTail  bool

	lastFetch map[*chaingen.Block]fetchMark
}

type fetchMark struct{ stores, reverts int }

const gwURL = "http://feeder.sim/feeder_gateway"

func newGateway(w *world) *gateway {
	return &gateway{w: w, classes: map[felt.Felt]core.ClassDefinition{}, gor: map[uint64]*gorState{}, lastFetch: map[*chaingen.Block]fetchMark{}}
}

// onBlockGenerated runs on every block the chain driver generates (before its successors exist).
func (g *gateway) onBlockGenerated(b *chaingen.Block) {
	w := g.w
	feedergen.Realise(w.c.T, b, w.drv.g.Net, true)
	for _, h := range refstate.SortedFelts(b.Classes) {
		def := b.Classes[h]
		if old := g.classes[h]; old != nil && canon(old) != canon(def) {
			w.c.Broken("two different definitions generated for class %s", h.String())
		}
		g.classes[h] = def
	}
	g.selfCheck(b)
}

// selfCheck: sn2core.Adapt*(decode(render(x))) must reproduce x (nil and empty collections are the
// same thing: no hash tells them apart).
func (g *gateway) selfCheck(b *chaingen.Block) {
	c := g.w.c
	rb, rsu, err := feedergen.RoundTripBlock(b.B, b.SU)
	if err != nil {
		c.Fail("feeder_adapter_roundtrip", "block:error", "block %d (v%s) does not survive core -> feeder JSON -> sn2core: %v", b.B.Number, b.Version, err)
	}
	if p := diffPath(reflect.ValueOf(b.B), reflect.ValueOf(rb), "block"); p != "" {
		c.Fail("feeder_adapter_roundtrip", p, "block %d (v%s): sn2core.AdaptBlock(feeder JSON of the block) differs from the block at %s: %s", b.B.Number, b.Version, p, firstDiff(canon(b.B), canon(rb)))
	}
	if p := diffPath(reflect.ValueOf(b.SU), reflect.ValueOf(rsu), "state_update"); p != "" {
		c.Fail("feeder_adapter_roundtrip", p, "block %d (v%s): sn2core.AdaptStateUpdate(feeder JSON) differs from the state update at %s: %s", b.B.Number, b.Version, p, firstDiff(canon(b.SU), canon(rsu)))
	}
	for _, h := range refstate.SortedFelts(b.Classes) {
		def := b.Classes[h]
		rd, err := feedergen.RoundTripClass(def)
		if err != nil {
			c.Fail("feeder_adapter_roundtrip", "class:error", "class %s does not survive core -> feeder JSON -> sn2core: %v", h.String(), err)
		}
		if p := diffPath(reflect.ValueOf(def), reflect.ValueOf(rd), "class"); p != "" {
			c.Fail("feeder_adapter_roundtrip", p, "class %s: sn2core adaptation of its feeder JSON differs at %s: %s", h.String(), p, firstDiff(canon(def), canon(rd)))
		}
		if sc, ok := rd.(*core.SierraClass); ok {
			if hh, err := sc.Hash(); err != nil || !hh.Equal(&h) {
				c.Broken("realised Sierra class does not hash to its key")
			}
		}
	}
	c.Evals++
}

// diffPath walks two values in parallel and returns the path of the first difference (indices and
// map keys are not part of the path), "" when they are equal. nil and empty slices/maps are equal.
func diffPath(a, b reflect.Value, path string) string {
	if !a.IsValid() || !b.IsValid() {
		if a.IsValid() != b.IsValid() {
			return path
		}
		return ""
	}
	if a.Type() != b.Type() {
		return path + ":type"
	}
	switch a.Kind() {
	case reflect.Ptr, reflect.Interface:
		if a.IsNil() || b.IsNil() {
			if a.IsNil() != b.IsNil() {
				return path + ":nil"
			}
			return ""
		}
		return diffPath(a.Elem(), b.Elem(), path)
	case reflect.Slice, reflect.Array:
		if a.Len() != b.Len() {
			return path + ":len"
		}
		for i := 0; i < a.Len(); i++ {
			if p := diffPath(a.Index(i), b.Index(i), path+"[]"); p != "" {
				return p
			}
		}
		return ""
	case reflect.Map:
		if a.Len() != b.Len() {
			return path + ":len"
		}
		if canonOf(a) != canonOf(b) {
			return path + "{}"
		}
		return ""
	case reflect.Struct:
		if a.Type() == feltType || (a.Type().ConvertibleTo(feltType) && a.Kind() == reflect.Array) {
			if canonOf(a) != canonOf(b) {
				return path
			}
			return ""
		}
		for i := 0; i < a.NumField(); i++ {
			f := a.Type().Field(i)
			if f.Name == "_" {
				continue
			}
			if !f.IsExported() {
				if canonOf(a.Field(i)) != canonOf(b.Field(i)) {
					return path + "." + f.Name
				}
				continue
			}
			if p := diffPath(a.Field(i), b.Field(i), path+"."+f.Name); p != "" {
				return p
			}
		}
		return ""
	default:
		if canonOf(a) != canonOf(b) {
			return path
		}
		return ""
	}
}

func canonOf(v reflect.Value) string {
	var sb strings.Builder
	canonV(&sb, v)
	return sb.String()
}

// dataSource installs the transport and builds the production data source stack.
func (g *gateway) dataSource() jsync.DataSource {
	w := g.w
	fc := w.cfg.fc
	g.saved = http.DefaultTransport
	http.DefaultTransport = g
	u, err := url.Parse(gwURL)
	w.c.Must(err, "gateway url")
	timeouts, fixed, err := feeder.ParseTimeouts(fc.timeouts)
	w.c.Must(err, "gateway timeouts")
	opts := []feeder.Option{feeder.WithUserAgent("jsim"), feeder.WithTimeouts(timeouts, fixed), feeder.WithAPIKey("")}
	if fc.maxRetries != 10 {
		opts = append(opts, feeder.WithMaxRetries(fc.maxRetries))
	}
	g.client = feeder.NewClient(u, opts...)
	return jsync.NewFeederGatewayDataSource(w.bc, adaptfeeder.New(g.client))
}

func (g *gateway) uninstall() {
	if g.saved != nil {
		http.DefaultTransport = g.saved
		g.saved = nil
	}
}

func goid() uint64 {
	var buf [64]byte
	n := runtime.Stack(buf[:], false)
	s := strings.TrimPrefix(string(buf[:n]), "goroutine ")
	if i := strings.IndexByte(s, ' '); i > 0 {
		id, _ := strconv.ParseUint(s[:i], 10, 64)
		return id
	}
	return 0
}

// origin names the synchronizer function the request is made for (innermost first).
func origin() string {
	var pcs [48]uintptr
	n := runtime.Callers(3, pcs[:])
	fr := runtime.CallersFrames(pcs[:n])
	for {
		f, more := fr.Next()
		switch {
		case strings.HasSuffix(f.Function, ".isReverting"):
			return "chk"
		case strings.HasSuffix(f.Function, ".revertTask"):
			return "rvt"
		case strings.HasSuffix(f.Function, ".fetcherTask"):
			return "fet"
		case strings.HasSuffix(f.Function, ".pollLatest"):
			return "poll"
		case strings.Contains(f.Function, "pollPendingData"), strings.Contains(f.Function, "preconfirmed"):
			return "pre"
		}
		if !more {
			return "oth"
		}
	}
}

// RoundTrip runs on the node's goroutines: it only classifies the request and parks.
func (g *gateway) RoundTrip(hr *http.Request) (*http.Response, error) {
	w := g.w
	q := hr.URL.Query()
	ep := hr.URL.Path[strings.LastIndexByte(hr.URL.Path, '/')+1:]
	r := &req{ident: origin()}
	switch {
	case ep == "get_block" && q.Get("headerOnly") == "true" && q.Get("blockNumber") == "latest":
		r.kind = "latest"
		r.poll = r.ident == "poll"
	case ep == "get_state_update" && q.Get("includeBlock") == "true":
		n, err := strconv.ParseUint(q.Get("blockNumber"), 10, 64)
		if err != nil {
			r.kind, r.ident = "other", r.ident+":"+ep
			break
		}
		r.kind, r.n = "block", n
	case ep == "get_class_by_hash", ep == "get_compiled_class_by_class_hash":
		h, err := felt.FromString[felt.Felt](q.Get("classHash"))
		if err != nil {
			r.kind, r.ident = "other", r.ident+":"+ep
			break
		}
		r.kind, r.hash = "class", h
		if ep != "get_class_by_hash" {
			r.kind = "casm"
		}
	case ep == "get_preconfirmed_block": // C20 feeder class (c20feeder.go)
		classifyPc(q, r, ep)
	default:
		r.kind, r.ident = "other", r.ident+":"+ep
	}
	id := goid()
	us := hr.URL.String()
	w.mu.Lock()
	gs := g.gor[id]
	if gs == nil {
		gs = &gorState{}
		g.gor[id] = gs
	}
	if gs.url != us {
		gs.url, gs.fails = us, 0
	}
	switch r.kind {
	case "block":
		gs.block, gs.hasBlock = r.n, true
		gs.unknown, gs.sierra, gs.open, gs.hasTarget = nil, nil, false, false
	case "latest", "pclatest", "pcnum": // (a burst of the poller's class requests ends with its next pre-confirmed request)
		gs.unknown, gs.sierra, gs.open, gs.hasTarget = nil, nil, false, false
	case "class", "casm":
		if gs.hasBlock {
			r.n = gs.block // the block whose classes are being collected
		}
		if gs.open {
			h := r.hash
			if gs.hasTarget && h.Equal(&gs.target) {
				h = gs.subst
			}
			body := pureClassBody(r.kind, g.classes[h])
			w.mu.Unlock()
			if body == nil {
				return httpResponse(hr, http.StatusBadRequest, []byte(`{"code":"StarknetErrorCode.UNDECLARED_CLASS","message":"not declared"}`)), nil
			}
			return httpResponse(hr, http.StatusOK, body), nil
		}
		gs.want = r.hash
		r.kind, r.hash = "class", felt.Zero // the key of a burst's first request does not name the class
	}
	r.gs = gs
	w.mu.Unlock()

	x := w.park(hr.Context(), r)
	if x.err != nil {
		return nil, x.err
	}
	return httpResponse(hr, x.status, x.body), nil
}

func httpResponse(hr *http.Request, code int, body []byte) *http.Response {
	return &http.Response{
		Status: fmt.Sprintf("%d %s", code, http.StatusText(code)), StatusCode: code,
		Proto: "HTTP/1.1", ProtoMajor: 1, ProtoMinor: 1,
		Header:        http.Header{"Content-Type": {"application/json"}},
		Body:          io.NopCloser(bytes.NewReader(body)),
		ContentLength: int64(len(body)), Request: hr,
	}
}

// pureClassBody renders a class endpoint's body without touching the run context (it is also called on
// the node's goroutines). nil: the gateway has no such class / no compiled class.
func pureClassBody(kind string, def core.ClassDefinition) []byte {
	if def == nil {
		return nil
	}
	class, casm, err := feedergen.ClassWire(def)
	if err != nil {
		return nil
	}
	if kind == "class" {
		return feedergen.Encode(class)
	}
	if casm == nil {
		return nil
	}
	return feedergen.Encode(casm)
}

// wire translates an answer of world.go (core values) into what the transport returns. It runs on
// the scheduler goroutine (world.release).
func (g *gateway) wire(r *req, x resp) resp {
	w := g.w
	c := w.c
	switch {
	case x.status != 0:
	case x.err != nil:
		switch {
		case errors.Is(x.err, errNotFound):
			x = g.status(http.StatusBadRequest, feedergen.ErrorTree("StarknetErrorCode.BLOCK_NOT_FOUND", fmt.Sprintf("Block number %d was not found.", r.n)))
		case errors.Is(x.err, errInjected):
			x = g.status(http.StatusInternalServerError, feedergen.ErrorTree("StarknetErrorCode.INTERNAL", "scripted failure"))
		case errors.Is(x.err, context.DeadlineExceeded) && !w.closing:
			c.Fault("http_timeout")
		}
	case r.kind == "block" && x.p.b != nil:
		t, err := feedergen.BlockWire(x.p.b, x.p.su, nil)
		c.Must(err, "render block")
		if n := len(w.deliveries); n > 0 && w.deliveries[n-1].step == w.step && w.deliveries[n-1].blk != nil {
			g.noteFetch(w.deliveries[n-1].blk)
		}
		x = resp{status: http.StatusOK, body: feedergen.Encode(t)}
	case r.kind == "latest" && x.hdr != nil:
		x = resp{status: http.StatusOK, body: feedergen.Encode(feedergen.HeaderTree(x.hdr.Hash, x.hdr.Number))}
	case x.upd != nil: // C20 feeder class (c20feeder.go)
		x = g.wirePc(r, x)
	default:
		c.Broken("feeder gateway: answer of request %s has no wire form", r.key)
	}
	if r.kind == "block" && x.status == http.StatusOK && r.gs != nil && !w.closing {
		g.expectBurst(r.gs, x.body)
	}
	if !w.closing && r.gs != nil {
		failed := x.err != nil || x.status != http.StatusOK
		if failed {
			if r.gs.fails > 0 {
				c.Probe("client_retried_after_failure")
			}
			r.gs.fails++
			if r.gs.fails == w.cfg.fc.maxRetries+1 {
				c.Probe("client_retries_exhausted")
			}
			// the client now waits minWait, 2*minWait ... maxWait before the next attempt
			now := w.rel()
			for _, d := range []time.Duration{500 * time.Millisecond, time.Second, 2 * time.Second} {
				g.backoff = append(g.backoff, now+d)
			}
		} else {
			if r.gs.fails > 0 {
				c.Probe("client_retry_succeeded")
			}
			r.gs.fails = 0
			r.gs.url = ""
		}
	}
	return x
}

func (g *gateway) status(code int, t any) resp {
	return resp{status: code, body: feedergen.Encode(t)}
}

// ---- judged-known bookkeeping and the class definition oracle ----------------------------------------

// classRefs lists the class hashes fetchUnknownClasses looks at for block m, each with one role (declared
// by m as a Sierra class / as a Cairo 0 class / only deployed by m).
func classRefs(m *chaingen.Block) ([]felt.Felt, map[felt.Felt]string) {
	d := m.SU.StateDiff
	role := map[felt.Felt]string{}
	var out []felt.Felt
	add := func(h felt.Felt, r string) {
		if _, ok := role[h]; !ok {
			role[h] = r
			out = append(out, h)
		}
	}
	for _, h := range refstate.SortedFelts(d.DeclaredV1Classes) {
		add(h, "declared_v1")
	}
	for _, h := range d.DeclaredV0Classes {
		add(*h, "declared_v0")
	}
	for _, a := range refstate.SortedFelts(d.DeployedContracts) {
		add(*d.DeployedContracts[a], "deployed")
	}
	return out, role
}

// declaredBy returns the block of the node's chain that declares class h (nil: none).
func (g *gateway) declaredBy(h *felt.Felt) (*chaingen.Block, int) {
	for i, s := range g.w.local {
		d := s.b.SU.StateDiff
		if _, ok := d.DeclaredV1Classes[*h]; ok {
			return s.b, i
		}
		for _, x := range d.DeclaredV0Classes {
			if x.Equal(h) {
				return s.b, i
			}
		}
	}
	return nil, -1
}

// noteFetch runs when a valid block m is about to be delivered: the node will now read its head
// state (no commit can be released before it has) and skip every class it finds there.
func (g *gateway) noteFetch(m *chaingen.Block) {
	w := g.w
	g.lastFetch[m] = fetchMark{w.storesN, w.revertsN}
	refs, _ := classRefs(m)
	if len(refs) == 0 {
		return
	}
	st, closer, err := w.bc.HeadState()
	if err != nil {
		return // empty chain: nothing is known
	}
	defer func() { _ = closer() }()
	for _, h := range refs {
		if _, err := st.Class(&h); err != nil {
			continue
		}
		w.c.Probe("class_judged_known_at_fetch")
		by, _ := g.declaredBy(&h)
		if by == nil {
			w.c.Probe("class_known_but_declared_by_no_block_of_the_chain")
			continue
		}
		if by == w.localTip() {
			w.c.Probe("class_judged_known_from_head_block")
		}
		g.judged = append(g.judged, &judged{class: h, by: by, fetchOf: m, step: w.step})
	}
}

func (g *gateway) onRevert(x stored) {
	for _, j := range g.judged {
		if j.by == x.b && !j.reverted {
			j.reverted = true
			g.w.c.Probe("class_judged_known_then_declaring_block_reverted")
		}
	}
	g.checkClasses(g.w.local, "after_revert")
}

func (g *gateway) onStore(m *chaingen.Block) {
	w := g.w
	if fm, ok := g.lastFetch[m]; ok {
		// the store of m itself is already counted in storesN
		if w.storesN-1 > fm.stores {
			w.c.Probe("store_between_headstate_read_and_store")
		}
		if w.revertsN > fm.reverts {
			w.c.Probe("revert_between_headstate_read_and_store")
		}
	}
	g.checkClasses(w.local, "after_store")
}

// checkClasses: every class a block of the node's chain declares or deploys a contract with is
// readable from the head state, is the definition the source has for that hash, and is recorded as
// declared at the height of the block that declares it.
func (g *gateway) checkClasses(blocks []stored, when string) {
	w := g.w
	c := w.c
	if len(w.local) == 0 {
		return
	}
	st, closer, err := w.bc.HeadState()
	if err != nil {
		c.Broken("HeadState: %v", err)
	}
	defer func() { _ = closer() }()
	for _, s := range blocks {
		refs, role := classRefs(s.b)
		for _, h := range refs {
			c.Evals++
			want := g.classes[h]
			if want == nil {
				c.Broken("block %d references class %s which no generated block declares", s.b.B.Number, h.String())
			}
			dc, err := st.Class(&h)
			if err != nil {
				why := "unexplained"
				for _, j := range g.judged {
					if j.fetchOf == s.b && j.class.Equal(&h) && j.reverted {
						why = "judged_known_at_fetch_then_reverted"
					}
				}
				c.Fail("class_definition_missing", role[h]+":"+why+":"+when, "block %d %s of the node's chain has class %s (%s) but HeadState().Class fails: %v",
					s.b.B.Number, short(s.b.B.Hash), h.String(), role[h], err)
			}
			if canon(dc.Class) != canon(want) {
				part := "definition"
				ws, wok := want.(*core.SierraClass)
				gs, gok := dc.Class.(*core.SierraClass)
				switch {
				case wok && !gok:
					part = "cairo0_definition_for_sierra_class"
				case !wok && gok:
					part = "sierra_definition_for_cairo0_class"
				case wok && gok:
					w2, g2 := *ws, *gs
					w2.Compiled, g2.Compiled = nil, nil
					if canon(&w2) == canon(&g2) {
						part = "casm_part"
					} else {
						part = "sierra_part"
					}
				}
				c.Fail("class_definition_wrong", part+":"+role[h], "class %s (%s of block %d) is stored with a definition that differs from the source's: %s",
					h.String(), role[h], s.b.B.Number, firstDiff(canon(want), canon(dc.Class)))
			}
			if by, i := g.declaredBy(&h); by != nil && dc.At != uint64(i) {
				c.Fail("class_definition_wrong", "declared_at:"+role[h], "class %s is declared by block %d of the node's chain but recorded as declared at %d", h.String(), i, dc.At)
			}
			c.Probe("class_definition_checked")
		}
	}
}

// ---- pre-flight of non-truthful block answers ----------------------------------------------------------

// instantRT answers at once (no park): the body under test for get_state_update, truthful class definitions.
type instantRT struct {
	g    *gateway
	body []byte
}

func (t *instantRT) RoundTrip(hr *http.Request) (*http.Response, error) {
	q := hr.URL.Query()
	ep := hr.URL.Path[strings.LastIndexByte(hr.URL.Path, '/')+1:]
	code, body := http.StatusBadRequest, []byte(`{"code":"StarknetErrorCode.UNDECLARED_CLASS","message":"not declared"}`)
	switch ep {
	case "get_state_update":
		code, body = http.StatusOK, t.body
	case "get_class_by_hash", "get_compiled_class_by_class_hash":
		kind := "class"
		if ep != "get_class_by_hash" {
			kind = "casm"
		}
		if h, err := felt.FromString[felt.Felt](q.Get("classHash")); err == nil {
			if b := pureClassBody(kind, t.g.classes[h]); b != nil {
				code, body = http.StatusOK, b
			}
		}
	}
	return httpResponse(hr, code, body), nil
}

// preflight: a panic inside the synchronizer's worker pools cannot be contained (the goroutines of the
// verifier stream stay blocked for ever, the worker process could not finish its bubble), so a body that is
// not the truthful one is first put through the same real code on the scheduler's goroutine: a second real
// feeder client over a transport that answers at once, the real starknetdata/feeder adapter, the real
// feederGatewayDataSource.BlockByNumber (with fetchUnknownClasses on the node's head state) and - when that
// returns a block - Blockchain.SanityCheckNewHeight, which is what verifierTask runs next. A panic there is
// the panic the node's fetcher or verifier goroutine would die of; it is reported and the body is not sent.
func (g *gateway) preflight(r *req, body []byte, what string) {
	w := g.w
	if r.kind != "block" {
		return
	}
	u, _ := url.Parse(gwURL)
	cl := feeder.NewClient(u, feeder.WithHTTPClient(&http.Client{Transport: &instantRT{g: g, body: body}}), feeder.WithMaxRetries(0))
	ds := jsync.NewFeederGatewayDataSource(w.bc, adaptfeeder.New(cl))
	var pv any
	var stack string
	func() {
		defer func() {
			if pv = recover(); pv != nil {
				stack = string(debug.Stack())
			}
		}()
		cb, err := ds.BlockByNumber(context.Background(), r.n)
		if err == nil {
			_, _ = w.bc.SanityCheckNewHeight(cb.Block, cb.StateUpdate, cb.NewClasses)
		}
	}()
	w.c.Evals++
	if pv != nil {
		w.c.Fail("panic", "block_answer_processing:"+junoSite(stack),
			"the answer to %s (%s) makes the data source / verification code panic: %v\n%s", r.key, what, pv, stack)
	}
}

// junoSite names the innermost function of the repository on a panic's stack (by import path, so that it also
// works for a scratch copy of the repository).
func junoSite(stack string) string {
	lines := strings.Split(stack, "\n")
	seenPanic := false
	for _, l := range lines {
		if strings.HasPrefix(l, "panic(") {
			seenPanic = true
			continue
		}
		if seenPanic && strings.HasPrefix(l, "github.com/NethermindEth/juno/") {
			if k := strings.LastIndex(l, "("); k > 0 {
				l = l[:k]
			}
			return strings.TrimPrefix(l, "github.com/NethermindEth/juno/")
		}
	}
	return "?"
}

// ---- answers that only exist on the wire -------------------------------------------------------------

func (g *gateway) answerStatus(r *req, code int) {
	w := g.w
	w.c.Fault(fmt.Sprintf("http_%d", code))
	w.logf("answer %s: HTTP %d", r.key, code)
	w.release(r, g.status(code, feedergen.ErrorTree("StarknetErrorCode.TRANSIENT", http.StatusText(code))))
}

func (g *gateway) answerConnErr(r *req) {
	w := g.w
	w.c.Fault("connection_error")
	w.logf("answer %s: connection error", r.key)
	w.release(r, resp{err: errors.New("dial tcp: connection refused (scripted)")})
}

// truthBody is the body the gateway would truthfully send for r now (nil: it would not send 200).
func (g *gateway) truthBody(r *req) []byte {
	w := g.w
	switch r.kind {
	case "block":
		if int(r.n) >= len(w.cur.chain) {
			return nil
		}
		m := w.cur.chain[r.n]
		t, err := feedergen.BlockWire(m.B, m.SU, nil)
		w.c.Must(err, "render block")
		return feedergen.Encode(t)
	case "latest":
		m := w.cur.tip()
		return feedergen.Encode(feedergen.HeaderTree(m.B.Hash, m.B.Number))
	case "class":
		// the first request of a burst: which class it names is not the tape's doing; the body stands in for
		// "a class definition" (length and content differ with the class, so nothing may be derived from it)
		return pureClassBody("class", g.classes[r.gs.want])
	}
	return nil
}

func (g *gateway) answerBroken(r *req, mode string) {
	w := g.w
	body := g.truthBody(r)
	switch mode {
	case "truncated":
		n := len(body)
		if r.kind == "class" {
			n = min(n, 64) // which class a burst asks for first is not tape-decided: stay inside every body
		}
		cut := w.c.T.Draw("truncate.at", n)
		body = body[:cut]
		w.c.Fault("truncated_body")
		w.logf("answer %s: body truncated to %d bytes", r.key, cut)
	case "garbled":
		n := len(body)
		if r.kind == "class" {
			n = min(n, 64)
		}
		at := w.c.T.Draw("garble.at", n)
		body = append([]byte(nil), body...)
		body[at] = 0 // a raw control character is illegal everywhere in JSON text
		w.c.Fault("garbled_body")
		w.logf("answer %s: body garbled at byte %d", r.key, at)
	}
	g.preflight(r, body, mode)
	w.release(r, resp{status: http.StatusOK, body: body})
}

// answerShape: well-formed JSON that is not the object the endpoint promises.
func (g *gateway) answerShape(r *req) {
	w := g.w
	var body string
	var what string
	switch r.kind {
	case "block":
		m := w.cur.chain[r.n]
		switch w.c.T.Draw("shape.block", 4) {
		case 0:
			body, what = `{}`, "empty_object"
		case 1:
			t, err := feedergen.BlockWire(m.B, m.SU, nil)
			w.c.Must(err, "render block")
			t["state_update"] = nil
			body, what = string(feedergen.Encode(t)), "state_update_null"
		case 2:
			t, err := feedergen.BlockWire(m.B, m.SU, nil)
			w.c.Must(err, "render block")
			t["block"] = nil
			body, what = string(feedergen.Encode(t)), "block_null"
		default:
			t, err := feedergen.BlockWire(m.B, m.SU, nil)
			w.c.Must(err, "render block")
			bt := t["block"].(map[string]any)
			txs, _ := bt["transactions"].([]any)
			what = "block_hash_null"
			bt["block_hash"] = nil
			for _, tx := range txs {
				tm := tx.(map[string]any)
				for _, k := range []string{"calldata", "constructor_calldata", "signature"} {
					if _, ok := tm[k]; ok {
						delete(tm, k)
						bt["block_hash"] = m.B.Hash.String()
						what = "transaction_without_" + k
						break
					}
				}
				if what != "block_hash_null" {
					break
				}
			}
			body = string(feedergen.Encode(t))
		}
	case "latest":
		body, what = `{}`, "empty_object"
	default:
		body, what = `{}`, "empty_object"
	}
	w.c.Fault("wrong_shape_json")
	w.c.Fault("wrong_shape_" + r.kind + "_" + what)
	w.logf("answer %s: well-formed JSON of the wrong shape (%s)", r.key, what)
	g.preflight(r, []byte(body), "wrong_shape_"+what)
	w.release(r, resp{status: http.StatusOK, body: []byte(body)})
}

// wireKinds: the corruptions of tamper.go that can be expressed on the wire. The transaction and
// event counts and the Sierra program/ABI hashes are not transported (the adapter recomputes them).
var wireKinds = map[string]bool{"hash": true, "hash_header_only": true, "parent": true, "timestamp": true, "sequencer": true, "l1gas": true,
	"state_root": true, "state_root_rehash": true, "old_root": true, "diff": true, "diff_rehash": true, "tx_field": true, "receipt_fee": true, "event_data": true}

func (g *gateway) answerCorrupt(r *req) {
	w := g.w
	c := w.c
	m := w.cur.chain[r.n]
	var body []byte
	var kind string
	if w.cfg.fc.jsonTamper && c.T.Draw("tamper.level", 2) == 1 {
		t, err := feedergen.BlockWire(m.B, m.SU, nil)
		c.Must(err, "render block")
		cands := jsonTamperCandidates(t, m.Version)
		k := cands[c.T.Draw("tamper.json", len(cands))]
		k.apply()
		kind = k.kind
		body = feedergen.Encode(t)
		c.Fault("corrupt_json")
	} else {
		var ks []string
		for _, k := range w.tamperKinds(m) {
			if wireKinds[k] {
				ks = append(ks, k)
			}
		}
		kind = ks[c.T.Draw("tamper.kind", len(ks))]
		p := w.tamper(m, kind)
		t, err := feedergen.BlockWire(p.b, p.su, nil)
		c.Must(err, "render block")
		body = feedergen.Encode(t)
	}
	c.Fault("corrupt_block")
	c.Fault("corrupt_" + kind)
	w.tampered = append(w.tampered, tamperRec{hash: *m.B.Hash, n: r.n, kind: kind})
	w.deliver("block", r.n, w.cur, "corrupt:"+kind)
	w.logf("answer %s: block %s of v%d CORRUPTED (%s)", r.key, short(m.B.Hash), w.cur.id, kind)
	g.preflight(r, body, "corrupt")
	w.release(r, resp{status: http.StatusOK, body: body})
}

// answerMixed: block of one chain version, state update of another, in one answer.
func (g *gateway) answerMixed(r *req) {
	w := g.w
	c := w.c
	vs := w.otherForkAt(r.n)
	v := vs[c.T.Draw("mixed.v", len(vs))]
	bv, sv := w.cur, v
	if c.T.Draw("mixed.side", 2) == 1 {
		bv, sv = v, w.cur
	}
	bm, sm := bv.chain[r.n], sv.chain[r.n]
	t, err := feedergen.BlockWire(bm.B, sm.SU, nil)
	c.Must(err, "render block")
	c.Fault("mixed_version_answer")
	w.tampered = append(w.tampered, tamperRec{hash: *bm.B.Hash, n: r.n, kind: "mixed_versions"})
	w.deliver("block", r.n, bv, "corrupt:mixed_versions")
	w.logf("answer %s: block %s of v%d with the state update of block %s of v%d", r.key, short(bm.B.Hash), bv.id, short(sm.B.Hash), sv.id)
	body := feedergen.Encode(t)
	g.preflight(r, body, "mixed_versions")
	w.release(r, resp{status: http.StatusOK, body: body})
}

// expectBurst: a block answer with body is about to be delivered to the goroutine gs belongs to. Decode it the
// way the node will and work out which class definitions fetchUnknownClasses is going to ask for: the classes
// the state diff deploys contracts with or declares, minus those the node's head state holds right now (no
// commit can be released before the node has read it).
func (g *gateway) expectBurst(gs *gorState, body []byte) {
	w := g.w
	gs.unknown, gs.sierra, gs.open, gs.hasTarget = nil, nil, false, false
	var su *core.StateUpdate
	var err error
	func() {
		// a body the adapters choke on (the pre-flight has reported it, or the client's validation rejects it
		// before the adapters see it) starts no burst
		defer func() {
			if recover() != nil {
				su = nil
			}
		}()
		_, su, err = feedergen.DecodeBlock(body)
	}()
	if err != nil || su == nil || su.StateDiff == nil {
		return
	}
	d := su.StateDiff
	set := map[felt.Felt]bool{}
	for _, ch := range d.DeployedContracts {
		if ch != nil {
			set[*ch] = true
		}
	}
	for _, h := range d.DeclaredV0Classes {
		if h != nil {
			set[*h] = true
		}
	}
	gs.sierra = map[felt.Felt]bool{}
	for h := range d.DeclaredV1Classes {
		set[h] = true
		gs.sierra[h] = true
	}
	if len(set) == 0 {
		return
	}
	st, closer, err := w.bc.HeadState()
	if err == nil {
		defer func() { _ = closer() }()
	}
	for _, h := range refstate.SortedFelts(set) {
		if err == nil {
			if _, cerr := st.Class(&h); cerr == nil {
				continue
			}
		}
		gs.unknown = append(gs.unknown, h)
	}
}

// answerClass decides a burst of class requests (r is its first request).
func (g *gateway) answerClass(r *req, mode string) {
	w := g.w
	c := w.c
	gs := r.gs
	serve := func(h felt.Felt) {
		body := pureClassBody("class", g.classes[h])
		if body == nil {
			w.release(r, g.status(http.StatusBadRequest, feedergen.ErrorTree("StarknetErrorCode.UNDECLARED_CLASS", "Class is not declared.")))
			return
		}
		w.release(r, resp{status: http.StatusOK, body: body})
	}
	switch mode {
	case "ok":
		if !g.servable(gs) {
			// whichever class the node happened to ask for first: the burst cannot succeed
			w.logf("answer %s: a class of this burst is not declared", r.key)
			w.release(r, g.status(http.StatusBadRequest, feedergen.ErrorTree("StarknetErrorCode.UNDECLARED_CLASS", "Class is not declared.")))
			return
		}
		c.Probe("class_burst_served")
		w.logf("answer %s: definitions (burst of %d unknown classes)", r.key, len(gs.unknown))
		gs.open = true
		serve(gs.want)
	case "wrong", "wrongkind":
		ts, ss := g.wrongTargets(gs, mode)
		gs.target = ts[c.T.Draw("wrongclass.target", len(ts))]
		var cs []felt.Felt
		for _, h := range ss {
			if !h.Equal(&gs.target) {
				cs = append(cs, h)
			}
		}
		gs.subst = cs[c.T.Draw("wrongclass.subst", len(cs))]
		gs.hasTarget, gs.open = true, true
		if mode == "wrong" {
			c.Fault("other_class_served")
		} else {
			c.Fault("cairo0_definition_served_for_sierra_class")
		}
		w.logf("answer %s: definitions (burst of %d unknown classes), but for class %s the definition of class %s", r.key, len(gs.unknown), gs.target.String(), gs.subst.String())
		h := gs.want
		if h.Equal(&gs.target) {
			h = gs.subst
		}
		serve(h)
	}
}

// wrongTargets: for which class of the burst (targets) the definition of which other class (substitutes) may
// be served. mode "wrong": only substitutions the node can detect by recomputing a hash, i.e. a Sierra
// definition (its hash is recomputed from program, ABI and entry points) under any hash. Never a Cairo 0
// definition under a hash the chain does not declare as Sierra: core.VerifyClassHashes deliberately skips
// Cairo 0 classes, the node cannot tell. Never another class's CASM either: the node does not bind the
// compiled class it downloads to the compiled_class_hash the state diff declares, and on real networks it
// could not (the endpoint serves the compilation of the class as of a block, the gateway recompiles old
// classes), so that substitution is outside what the node can decide. mode "wrongkind": a Cairo 0 definition
// for a class the answered state diff declares as a Sierra class - the node knows from the state diff which
// kind the class must be.
func (g *gateway) wrongTargets(gs *gorState, mode string) (targets, substitutes []felt.Felt) {
	for _, h := range gs.unknown {
		if mode == "wrong" || gs.sierra[h] {
			targets = append(targets, h)
		}
	}
	for _, h := range refstate.SortedFelts(g.classes) {
		_, sierra := g.classes[h].(*core.SierraClass)
		if (mode == "wrong") == sierra {
			substitutes = append(substitutes, h)
		}
	}
	// at least one substitute must remain whichever target is drawn
	if !g.servable(gs) || len(targets) == 0 || len(substitutes) < 2 {
		return nil, nil
	}
	return targets, substitutes
}

// servable: the gateway has a definition for every class the burst will ask for.
func (g *gateway) servable(gs *gorState) bool {
	for _, h := range gs.unknown {
		if g.classes[h] == nil {
			return false
		}
	}
	return g.classes[gs.want] != nil || len(gs.unknown) > 0
}

// ---- scheduler options --------------------------------------------------------------------------------

func (g *gateway) requestOptions(r *req) []option {
	w := g.w
	cfg := w.cfg
	fc := cfg.fc
	var opts []option
	add := func(name string, weight int, do func()) { opts = append(opts, option{name, weight, do}) }
	truthful := func() {
		switch r.kind {
		case "block":
			w.answerBlock(r, "ok")
		case "latest":
			w.answerLatest(r, "ok")
		case "class", "casm":
			g.answerClass(r, "ok")
		default:
			g.answerOther(r)
		}
	}
	if r.cancelled() {
		add("ctxerr", 20, func() { w.answerCtxErr(r) })
		add("ok", 3, truthful)
		return opts
	}
	add("ok", 12, truthful)
	if r.kind == "other" {
		return opts
	}
	if cfg.errs {
		add("http500", 1, func() { g.answerStatus(r, http.StatusInternalServerError) })
		add("http503", 1, func() { g.answerStatus(r, http.StatusServiceUnavailable) })
		add("http429", 1, func() { g.answerStatus(r, http.StatusTooManyRequests) })
		add("connerr", 1, func() { g.answerConnErr(r) })
	}
	if fc.garble && len(g.truthBody(r)) > 0 && (r.kind != "class" || g.servable(r.gs)) {
		add("truncated", 1, func() { g.answerBroken(r, "truncated") })
		add("garbled", 1, func() { g.answerBroken(r, "garbled") })
	}
	switch r.kind {
	case "block":
		have := int(r.n) < len(w.cur.chain)
		if cfg.corrupt && have {
			add("corrupt", 2, func() { g.answerCorrupt(r) })
		}
		if cfg.otherFork && len(w.otherForkAt(r.n)) > 0 {
			add("otherfork", 2, func() { w.answerBlock(r, "otherfork") })
		}
		if cfg.staleVer && r.verAt != w.cur && int(r.n) < len(r.verAt.chain) && !w.cur.has(r.verAt.chain[r.n]) {
			add("stalever", 3, func() { w.answerBlock(r, "stalever") })
		}
		if fc.mixed && have && len(w.otherForkAt(r.n)) > 0 {
			add("mixed", 2, func() { g.answerMixed(r) })
		}
		if fc.shape && have {
			add("shape", 1, func() { g.answerShape(r) })
		}
	case "latest":
		if cfg.staleLat && len(w.cur.chain) > 1 {
			add("stale", 3, func() { w.answerLatest(r, "stale") })
		}
		if cfg.flap && len(w.flapVersions()) > 0 {
			add("flap", 2, func() { w.answerLatest(r, "flap") })
		}
		if fc.shape && w.c.Knobs["latestshape"] == "1" {
			// Development aid only (JSIM_KNOB_latestshape=1 with TestDev, never in the props file): an answer
			// without block_hash makes isReverting dereference a nil hash ON A FETCHER GOROUTINE; the panic is
			// observed, but the goroutines of the verifier stream stay blocked, so a worker could not finish.
			add("shape", 4, func() { g.answerShape(r) })
		}
	case "class", "casm":
		if ts, _ := g.wrongTargets(r.gs, "wrong"); fc.classFaults && len(ts) > 0 {
			add("wrong", 2, func() { g.answerClass(r, "wrong") })
		}
		if ts, _ := g.wrongTargets(r.gs, "wrongkind"); fc.wrongKind && len(ts) > 0 {
			add("wrongkind", 2, func() { g.answerClass(r, "wrongkind") })
		}
	}
	return opts
}

func (g *gateway) answerOther(r *req) {
	w := g.w
	w.logf("answer %s: HTTP 404 (endpoint not served)", r.key)
	w.release(r, g.status(http.StatusNotFound, feedergen.ErrorTree("NOT_FOUND", "no such endpoint")))
}

// tailAnswer: the truthful answer of the request kinds world.go does not know.
func (g *gateway) tailAnswer(r *req) {
	switch r.kind {
	case "class", "casm":
		g.answerClass(r, "ok")
	default:
		g.answerOther(r)
	}
}

// ---- clock ---------------------------------------------------------------------------------------------

func (g *gateway) earliestDeadline() (time.Time, bool) {
	w := g.w
	w.mu.Lock()
	defer w.mu.Unlock()
	var best time.Time
	ok := false
	for _, r := range w.parked {
		if r.kind == "commit" || r.ctx == nil {
			continue
		}
		if dl, has := r.ctx.Deadline(); has && r.ctx.Err() == nil && (!ok || dl.Before(best)) {
			best, ok = dl, true
		}
	}
	return best, ok
}

func (g *gateway) nParked() int {
	g.w.mu.Lock()
	defer g.w.mu.Unlock()
	return len(g.w.parked)
}

const clockQuantum = 250 * time.Millisecond

// advance lets the fake clock run for at most d, in small quanta, and stops as soon as a node
// goroutine has parked a new request (a backoff ended, the poll ticker fired): a request must never
// sit unseen through the rest of a long sleep and time out without the scheduler having decided so.
// In fault-free runs and in the tail it also stops short of the deadline of every parked request.
func (g *gateway) advance(what string, d time.Duration) {
	w := g.w
	if g.holdsDeadlines() {
		if dl, ok := g.earliestDeadline(); ok {
			if rem := time.Until(dl) - time.Millisecond; rem < d {
				d = rem
			}
		}
	}
	start := time.Now()
	n0 := g.nParked()
	for d > 0 {
		el := time.Since(start)
		if el >= d {
			break
		}
		time.Sleep(min(clockQuantum, d-el))
		synctest.Wait()
		if g.nParked() > n0 {
			break
		}
	}
	w.logf("env: clock +%s (%s)", time.Since(start), what)
	now := w.rel()
	kept := g.backoff[:0]
	for _, b := range g.backoff {
		if b > now {
			kept = append(kept, b)
		}
	}
	g.backoff = kept
}

// holdsDeadlines: no parked request may time out (fault-free runs, runs without the timeout fault, the tail).
func (g *gateway) holdsDeadlines() bool {
	return !g.w.cfg.faulty || !g.w.cfg.fc.timeoutF || g.inTail
}

// canTick: a tick that could not move the clock (a parked request is about to time out and must not) is not offered.
func (g *gateway) canTick() bool {
	if !g.holdsDeadlines() {
		return true
	}
	dl, ok := g.earliestDeadline()
	return !ok || time.Until(dl) > 2*time.Millisecond
}

func (g *gateway) clockOptions() []option {
	w := g.w
	var opts []option
	if len(g.backoff) > 0 {
		sort.Slice(g.backoff, func(i, j int) bool { return g.backoff[i] < g.backoff[j] })
		if d := g.backoff[0] - w.rel(); g.canTick() {
			opts = append(opts, option{"backoff", 6, func() { g.advance("to the end of a client backoff", d) }})
		}
	}
	if w.cfg.faulty && w.cfg.fc.timeoutF {
		if dl, ok := g.earliestDeadline(); ok {
			opts = append(opts, option{"deadline", 2, func() {
				w.c.Probe("request_held_past_client_timeout")
				g.advance("past the client timeout of a parked request", time.Until(dl)+time.Millisecond)
			}})
		}
	}
	return opts
}

// stepFactor scales the tail's step bound: one DataSource call is up to maxRetries+1 HTTP attempts,
// each followed by a clock step for the backoff, and a block answer is followed by up to two
// requests per class.
func (g *gateway) stepFactor() int {
	g.inTail = true
	return 2*(g.w.cfg.fc.maxRetries+1) + 6
}

func (g *gateway) finish() {
	w := g.w
	c := w.c
	c.Probe("feeder_class_run")
	if m, ok := c.Sample.(map[string]any); ok {
		m["feeder_client"] = map[string]any{"timeouts": w.cfg.fc.timeouts, "max_retries": w.cfg.fc.maxRetries, "classes": len(g.classes)}
	}
}
