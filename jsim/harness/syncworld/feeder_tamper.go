package syncworld

import (
	"encoding/json"
	"fmt"
	"sort"
	"strconv"
	"strings"

	"github.com/NethermindEth/juno/core/felt"
)

// jsonTamper is one single-leaf change of the wire tree of get_state_update?includeBlock=true.
type jsonTamper struct {
	kind  string // stable name: the path with indices and address keys removed
	apply func()
}

// Every candidate changes a leaf that the protocol (>= 0.13.2, the only versions the sync world
// generates) commits to, so that a verifying node must reject the block:
//
//   - header: number, parent hash, state root, sequencer, timestamp, version string, DA mode, L1 and
//     L1-data gas prices are operands of the block hash (core/block.go Post0132Hash / post0134Hash);
//     the L2 gas price only from 0.13.4 on; block_hash itself is what the recomputation is compared with;
//   - transactions: the transaction hash is a leaf of the transaction commitment; per type only fields
//     that core/transaction.go feeds into the hash it recomputes (nothing but the hash for a legacy DEPLOY);
//   - receipts: fee, transaction hash, execution status, revert reason of a reverted transaction, messages,
//     total_gas_consumed.l1_gas / l1_data_gas (core/receipt.go hash); events: from, keys, data;
//   - state update: block_hash and new_root are compared with the block's, old_root with the node's state,
//     every entry of the state diff is an operand of the state diff commitment.
//
// Not touched because nothing commits to them: commitments and counts served next to the header, status,
// transaction_index, n_steps, builtin counters, memory holes, data_availability, l2_gas, the signature.
func jsonTamperCandidates(t map[string]any, version string) []jsonTamper {
	var out []jsonTamper
	addFelt := func(kind string, m map[string]any, k string) {
		if s, ok := m[k].(string); ok {
			out = append(out, jsonTamper{kind, func() { m[k] = bumpHex(s) }})
		}
	}
	addNum := func(kind string, m map[string]any, k string) {
		if n, ok := m[k].(json.Number); ok {
			out = append(out, jsonTamper{kind, func() {
				v, _ := strconv.ParseUint(n.String(), 10, 64)
				m[k] = json.Number(strconv.FormatUint(v+1, 10))
			}})
		}
	}
	addFlip01 := func(kind string, m map[string]any, k string) {
		if n, ok := m[k].(json.Number); ok {
			out = append(out, jsonTamper{kind, func() {
				if n.String() == "0" {
					m[k] = json.Number("1")
				} else {
					m[k] = json.Number("0")
				}
			}})
		}
	}
	addElems := func(kind string, m map[string]any, k string) {
		if a, ok := m[k].([]any); ok {
			for i := range a {
				if s, ok := a[i].(string); ok {
					i := i
					out = append(out, jsonTamper{kind + "[]", func() { a[i] = bumpHex(s) }})
				}
			}
		}
	}
	addAppend := func(kind string, m map[string]any, k string) {
		if a, ok := m[k].([]any); ok {
			out = append(out, jsonTamper{kind + ":append", func() { m[k] = append(append([]any{}, a...), "0x1") }})
		}
	}
	obj := func(v any) map[string]any { m, _ := v.(map[string]any); return m }
	list := func(v any) []any { a, _ := v.([]any); return a }

	b := obj(t["block"])
	if b != nil {
		// block_hash: named like the header-hash corruption of tamper.go ("corrupt:hash...") - the revert
		// justification oracle knows that revertTask compares this field without verifying the block
		addFelt("hash_json", b, "block_hash")
		for _, k := range []string{"parent_block_hash", "state_root", "sequencer_address"} {
			addFelt("json:block."+k, b, k)
		}
		addNum("json:block.block_number", b, "block_number")
		addNum("json:block.timestamp", b, "timestamp")
		if s, ok := b["starknet_version"].(string); ok {
			out = append(out, jsonTamper{"json:block.starknet_version", func() { b["starknet_version"] = bumpVersion(s) }})
		}
		if s, ok := b["l1_da_mode"].(string); ok {
			out = append(out, jsonTamper{"json:block.l1_da_mode", func() {
				if s == "BLOB" {
					b["l1_da_mode"] = "CALLDATA"
				} else {
					b["l1_da_mode"] = "BLOB"
				}
			}})
		}
		prices := []string{"l1_gas_price", "l1_data_gas_price"}
		if version >= "0.13.4" {
			prices = append(prices, "l2_gas_price")
		}
		for _, p := range prices {
			if pm := obj(b[p]); pm != nil {
				addFelt("json:block."+p+".price_in_wei", pm, "price_in_wei")
				addFelt("json:block."+p+".price_in_fri", pm, "price_in_fri")
			}
		}
		txFields := map[string][]string{
			"INVOKE_FUNCTION": {"sender_address", "contract_address", "entry_point_selector", "nonce", "max_fee", "tip"},
			"DECLARE":         {"sender_address", "class_hash", "compiled_class_hash", "nonce", "max_fee", "tip"},
			"DEPLOY_ACCOUNT":  {"contract_address", "contract_address_salt", "class_hash", "nonce", "max_fee", "tip"},
			"L1_HANDLER":      {"contract_address", "entry_point_selector", "nonce"},
			"DEPLOY":          {},
		}
		txAppend := map[string][]string{
			"INVOKE_FUNCTION": {"calldata"},
			"L1_HANDLER":      {"calldata"},
			"DEPLOY_ACCOUNT":  {"constructor_calldata"},
		}
		for _, x := range list(b["transactions"]) {
			tx := obj(x)
			if tx == nil {
				continue
			}
			typ, _ := tx["type"].(string)
			pre := "json:block.transactions[" + typ + "]."
			addFelt(pre+"transaction_hash", tx, "transaction_hash")
			for _, k := range txFields[typ] {
				addFelt(pre+k, tx, k)
			}
			for _, k := range txAppend[typ] {
				addAppend(pre+k, tx, k)
			}
			if typ != "DEPLOY" {
				addFlip01(pre+"nonce_data_availability_mode", tx, "nonce_data_availability_mode")
				addFlip01(pre+"fee_data_availability_mode", tx, "fee_data_availability_mode")
				if rb := obj(tx["resource_bounds"]); rb != nil {
					if l1 := obj(rb["L1_GAS"]); l1 != nil {
						addFelt(pre+"resource_bounds.L1_GAS.max_amount", l1, "max_amount")
						addFelt(pre+"resource_bounds.L1_GAS.max_price_per_unit", l1, "max_price_per_unit")
					}
				}
			}
		}
		for _, x := range list(b["transaction_receipts"]) {
			r := obj(x)
			if r == nil {
				continue
			}
			pre := "json:block.transaction_receipts[]."
			addFelt(pre+"actual_fee", r, "actual_fee")
			addFelt(pre+"transaction_hash", r, "transaction_hash")
			if s, ok := r["execution_status"].(string); ok {
				out = append(out, jsonTamper{pre + "execution_status", func() {
					if s == "REVERTED" {
						r["execution_status"] = "SUCCEEDED"
					} else {
						r["execution_status"] = "REVERTED"
					}
				}})
				if s == "REVERTED" {
					if e, ok := r["revert_error"].(string); ok {
						out = append(out, jsonTamper{pre + "revert_error", func() { r["revert_error"] = e + "!" }})
					}
				}
			}
			for _, ev := range list(r["events"]) {
				if em := obj(ev); em != nil {
					addFelt(pre+"events[].from_address", em, "from_address")
					addElems(pre+"events[].keys", em, "keys")
					addElems(pre+"events[].data", em, "data")
					addAppend(pre+"events[].data", em, "data")
				}
			}
			for _, mv := range list(r["l2_to_l1_messages"]) {
				if mm := obj(mv); mm != nil {
					addFelt(pre+"l2_to_l1_messages[].from_address", mm, "from_address")
					addFelt(pre+"l2_to_l1_messages[].to_address", mm, "to_address")
					addElems(pre+"l2_to_l1_messages[].payload", mm, "payload")
				}
			}
			if er := obj(r["execution_resources"]); er != nil {
				if g := obj(er["total_gas_consumed"]); g != nil {
					addNum(pre+"execution_resources.total_gas_consumed.l1_gas", g, "l1_gas")
					addNum(pre+"execution_resources.total_gas_consumed.l1_data_gas", g, "l1_data_gas")
				}
			}
		}
	}
	su := obj(t["state_update"])
	if su != nil {
		for _, k := range []string{"block_hash", "new_root", "old_root"} {
			addFelt("json:state_update."+k, su, k)
		}
		if sd := obj(su["state_diff"]); sd != nil {
			pre := "json:state_update.state_diff."
			if m := obj(sd["storage_diffs"]); m != nil {
				for _, a := range sortedKeys(m) {
					for _, e := range list(m[a]) {
						if em := obj(e); em != nil {
							addFelt(pre+"storage_diffs{}[].key", em, "key")
							addFelt(pre+"storage_diffs{}[].value", em, "value")
						}
					}
				}
			}
			if m := obj(sd["nonces"]); m != nil {
				for _, a := range sortedKeys(m) {
					addFelt(pre+"nonces{}", m, a)
				}
			}
			for _, lk := range [][]string{
				{"deployed_contracts", "address", "class_hash"}, {"declared_classes", "class_hash", "compiled_class_hash"},
				{"replaced_classes", "address", "class_hash"}, {"migrated_compiled_classes", "class_hash", "compiled_class_hash"},
			} {
				for _, e := range list(sd[lk[0]]) {
					if em := obj(e); em != nil {
						addFelt(pre+lk[0]+"[]."+lk[1], em, lk[1])
						addFelt(pre+lk[0]+"[]."+lk[2], em, lk[2])
					}
				}
			}
			addElems(pre+"old_declared_contracts", sd, "old_declared_contracts")
		}
	}
	return out
}

func sortedKeys(m map[string]any) []string {
	ks := make([]string, 0, len(m))
	for k := range m {
		ks = append(ks, k)
	}
	sort.Strings(ks)
	return ks
}

// bumpHex adds one to a 0x-hex quantity. Felts wrap at the field prime; anything that does not parse
// as a felt (an Ethereum address string) gets its last hex digit changed.
func bumpHex(s string) string {
	if f, err := felt.FromString[felt.Felt](s); err == nil {
		var x felt.Felt
		x.Add(&f, &felt.One)
		return x.String()
	}
	if s == "" {
		return "0x1"
	}
	last := s[len(s)-1]
	nl := byte('1')
	if last == '1' {
		nl = '2'
	}
	return s[:len(s)-1] + string(nl)
}

// bumpVersion raises the last component of a protocol version string.
func bumpVersion(s string) string {
	i := strings.LastIndexByte(s, '.')
	n, err := strconv.Atoi(s[i+1:])
	if i < 0 || err != nil {
		return s + ".1"
	}
	return fmt.Sprintf("%s.%d", s[:i], n+1)
}
