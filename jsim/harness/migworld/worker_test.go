package migworld

import (
	"testing"

	"jsim/sim"
)

func TestWorker(t *testing.T) {
	sim.WorkerMain(t, map[string]sim.Harness{
		"C18": C18,
	}, map[string]sim.Options{
		// one synctest bubble per worker process: every database operation of the runner and of the
		// migrators' pipeline goroutines parks and is released by the harness, one at a time
		"C18": {Bubble: true, PanicIsViolation: true},
	})
}
