package migworld

import (
	"bytes"
	"context"
	"errors"
	"fmt"
	"time"

	"github.com/NethermindEth/juno/blockchain/networks"
	"github.com/NethermindEth/juno/db"
	"github.com/NethermindEth/juno/migration"
	"github.com/NethermindEth/juno/migration/blocktransactions"
	"github.com/NethermindEth/juno/migration/historyprunner"
	"github.com/NethermindEth/juno/migration/state/headstate"
	"github.com/NethermindEth/juno/migration/statedifflength"
	"github.com/NethermindEth/juno/utils/log"
)

func isNotFound(err error) bool { return errors.Is(err, db.ErrKeyNotFound) }

// call is one recorded invocation of a Migration method during one runner.Run.
type call struct {
	idx     int
	before  bool   // Before (else Migrate)
	arg     []byte // Before: the state handed over
	argNil  bool
	state   []byte // Migrate: returned state
	stNil   bool
	err     error
	ctxErr  error // ctx.Err() at the moment Migrate returned
	opsFrom int   // scheduler op count when Migrate was entered
}

func (k call) outcome() string {
	if k.before {
		return "before"
	}
	s := "state"
	if k.stNil {
		s = "nil"
	}
	e := "nil"
	switch {
	case k.err == nil:
	case k.ctxErr != nil && errors.Is(k.err, k.ctxErr):
		e = "ctxerr"
	default:
		e = "err"
	}
	return "(" + s + "," + e + ")"
}

// runLog collects the calls of one runner.Run and tells which migration is executing.
type runLog struct {
	calls  []call
	active int // index of the migration whose Migrate is executing, -1 otherwise
	sch    *sched
}

// recMig records what the runner does with a migration; it adds no behaviour.
type recMig struct {
	inner migration.Migration
	idx   int
	rl    *runLog
}

func (m *recMig) Before(st []byte) error {
	m.rl.calls = append(m.rl.calls, call{idx: m.idx, before: true, arg: bytes.Clone(st), argNil: st == nil})
	return m.inner.Before(st)
}

func (m *recMig) Migrate(ctx context.Context, d db.KeyValueStore, n *networks.Network, l log.StructuredLogger) ([]byte, error) {
	m.rl.active = m.idx
	from := m.rl.sch.ops
	st, err := m.inner.Migrate(ctx, d, n, l)
	m.rl.active = -1
	m.rl.calls = append(m.rl.calls, call{idx: m.idx, state: bytes.Clone(st), stNil: st == nil, err: err, ctxErr: ctx.Err(), opsFrom: from})
	return st, err
}

// flags is the configuration of one "binary start": which optional migrations are enabled and how
// many registry entries the binary knows.
type flags struct {
	prune    bool
	newState bool
	aux      bool
	entries  int // number of registry entries of this binary (downgrade: fewer than the database has seen)
	// configuration of the history pruner (--prune-retained-blocks, --prune-min-age)
	retained uint64
	minAge   time.Duration
}

func (f flags) String() string {
	return fmt.Sprintf("{prune=%v new-state=%v aux=%v entries=%d}", f.prune, f.newState, f.aux, f.entries)
}

func (f flags) target() migration.SchemaVersion {
	var t migration.SchemaVersion
	for i := 0; i < f.entries; i++ {
		switch i {
		case idxBlockTx, idxSDL:
			t.Set(uint8(i))
		case idxPrune:
			if f.prune {
				t.Set(uint8(i))
			}
		case idxNewState:
			if f.newState {
				t.Set(uint8(i))
			}
		case idxAux:
			if f.aux {
				t.Set(uint8(i))
			}
		}
	}
	return t
}

// prodRegistry mirrors node.registerMigrations (first four entries, same order, same optional
// flags) and appends the harness's well-behaved optional migration as a fifth entry.
func prodRegistry(f flags, rl *runLog, aux *toy) *migration.Registry {
	r := migration.NewRegistry()
	for i := 0; i < f.entries; i++ {
		switch i {
		case idxBlockTx:
			r.With(&recMig{inner: &blocktransactions.Migrator{}, idx: i, rl: rl})
		case idxPrune:
			r.WithOptional(&recMig{inner: historyprunner.New(f.retained, f.minAge), idx: i, rl: rl}, f.prune, "prune-mode")
		case idxNewState:
			r.WithOptional(&recMig{inner: &headstate.Migrator{}, idx: i, rl: rl}, f.newState, "new-state")
		case idxSDL:
			r.With(&recMig{inner: &statedifflength.Migrator{}, idx: i, rl: rl})
		case idxAux:
			r.WithOptional(&recMig{inner: aux, idx: i, rl: rl}, f.aux, "jsim-aux")
		}
	}
	return r
}

// ---------------------------------------------------------------------------------------------
// toy migrations

const toyBucket = 0xee // not a bucket of the repository

var errToy = errors.New("toy migration: transient failure")

type outcome int

const (
	outFinish      outcome = iota // do the remaining work, return (nil, nil)
	outPartial                    // one unit of work, return (state, nil)
	outCancelState                // one unit of work, the context is cancelled, return (state, ctx.Err())
	outCancelNil                  // the context is cancelled, return (nil, ctx.Err()) without finishing
	outFailNil                    // return (nil, err)
	outFailState                  // return (state, err)
	nOutcomes
)

func (o outcome) String() string {
	return [...]string{"finish", "partial(state,nil)", "cancel(state,ctxerr)", "cancel(nil,ctxerr)", "fail(nil,err)", "fail(state,err)"}[o]
}

// toy is a harness-defined migration: `units` marker keys have to be written, progress is the
// resume token. What each invocation does is scripted; an exhausted script finishes.
type toy struct {
	id     int
	units  int
	script []outcome
	pos    *int // persistent script position (the script belongs to the environment, not to the process)
	wrap   bool // wrap ctx.Err() with %w
	// onCancel: what a toy does when it finds the context already cancelled at entry / between units
	nilOnCancel bool // return (nil, ctx.Err()) instead of (state, ctx.Err())
	cancel      func()
	progress    int
	log         func(string, ...any)
	executed    map[outcome]int
}

func toyKey(id, unit int) []byte { return []byte{toyBucket, byte(id), byte(unit)} }

func (t *toy) Before(st []byte) error {
	t.progress = 0
	if len(st) > 0 {
		t.progress = int(st[0])
	}
	return nil
}

func (t *toy) ctxErr(ctx context.Context) error {
	if t.wrap {
		return fmt.Errorf("toy %d interrupted: %w", t.id, ctx.Err())
	}
	return ctx.Err()
}

func (t *toy) unit(d db.KeyValueStore) error {
	if t.progress >= t.units {
		return nil
	}
	b := d.NewBatch()
	if err := b.Put(toyKey(t.id, t.progress), []byte{byte(t.id), byte(t.progress), 0x5a}); err != nil {
		return err
	}
	if err := b.Write(); err != nil {
		return err
	}
	t.progress++
	return nil
}

func (t *toy) state() []byte { return []byte{byte(t.progress)} }

func (t *toy) Migrate(ctx context.Context, d db.KeyValueStore, _ *networks.Network, _ log.StructuredLogger) ([]byte, error) {
	if ctx.Err() != nil {
		if t.nilOnCancel {
			t.executed[outCancelNil]++
			return nil, t.ctxErr(ctx)
		}
		t.executed[outCancelState]++
		return t.state(), t.ctxErr(ctx)
	}
	o := outFinish
	if t.pos != nil && *t.pos < len(t.script) {
		o = t.script[*t.pos]
		*t.pos++
	}
	t.executed[o]++
	switch o {
	case outPartial:
		if t.progress >= t.units-1 {
			break // nothing would be left: finish instead
		}
		if err := t.unit(d); err != nil {
			return t.state(), err
		}
		return t.state(), nil
	case outCancelState:
		if err := t.unit(d); err != nil {
			return t.state(), err
		}
		t.cancel()
		return t.state(), t.ctxErr(ctx)
	case outCancelNil:
		t.cancel()
		return nil, t.ctxErr(ctx)
	case outFailNil:
		return nil, errToy
	case outFailState:
		return t.state(), errToy
	}
	for t.progress < t.units {
		if ctx.Err() != nil { // cancelled from outside between units
			if t.nilOnCancel {
				return nil, t.ctxErr(ctx)
			}
			return t.state(), t.ctxErr(ctx)
		}
		if err := t.unit(d); err != nil {
			return t.state(), err
		}
	}
	return nil, nil
}
