package migworld

import (
	"bytes"
	"context"
	"errors"
	"fmt"
	"reflect"
	"strings"
	"time"

	"github.com/NethermindEth/juno/blockchain/networks"
	"github.com/NethermindEth/juno/db"
	"github.com/NethermindEth/juno/migration"
	"github.com/NethermindEth/juno/migration/blocktransactions"
	"github.com/NethermindEth/juno/migration/historyprunner"
	"github.com/NethermindEth/juno/migration/state/headstate"
	"github.com/NethermindEth/juno/migration/statedifflength"
	"github.com/NethermindEth/juno/utils/log"
)

func isNotFound(err error) bool { return errors.Is(err, db.ErrKeyNotFound) }

// call is one recorded invocation of a Migration method during one runner.Run.
type call struct {
	idx     int
	before  bool   // Before (else Migrate)
	arg     []byte // Before: the state handed over
	argNil  bool
	state   []byte // Migrate: returned state
	stNil   bool
	err     error
	ctxErr  error // ctx.Err() at the moment Migrate returned
	opsFrom int   // scheduler op count when Migrate was entered
}

func (k call) outcome() string {
	if k.before {
		return "before"
	}
	s := "state"
	if k.stNil {
		s = "nil"
	}
	e := "nil"
	switch {
	case k.err == nil:
	case k.ctxErr != nil && errors.Is(k.err, k.ctxErr):
		e = "ctxerr"
	default:
		e = "err"
	}
	return "(" + s + "," + e + ")"
}

// runLog collects the calls of one runner.Run and tells which migration is executing.
type runLog struct {
	calls  []call
	active int // index of the migration whose Migrate is executing, -1 otherwise
	sch    *sched
}

// recMig records what the runner does with a migration; it adds no behaviour.
type recMig struct {
	inner migration.Migration
	idx   int
	rl    *runLog
}

func (m *recMig) Before(st []byte) error {
	m.rl.calls = append(m.rl.calls, call{idx: m.idx, before: true, arg: bytes.Clone(st), argNil: st == nil})
	return m.inner.Before(st)
}

func (m *recMig) Migrate(ctx context.Context, d db.KeyValueStore, n *networks.Network, l log.StructuredLogger) ([]byte, error) {
	m.rl.active = m.idx
	from := m.rl.sch.ops
	st, err := m.inner.Migrate(ctx, d, n, l)
	m.rl.active = -1
	m.rl.calls = append(m.rl.calls, call{idx: m.idx, state: bytes.Clone(st), stNil: st == nil, err: err, ctxErr: ctx.Err(), opsFrom: from})
	return st, err
}

// flags is the configuration of one "binary start": which optional migrations are enabled and how
// many registry entries the binary knows.
type flags struct {
	prune    bool
	newState bool
	aux      bool
	entries  int // number of registry entries of this binary (downgrade: fewer than the database has seen)
	// configuration of the history pruner (--prune-retained-blocks, --prune-min-age)
	retained uint64
	minAge   time.Duration
}

func (f flags) String() string {
	return fmt.Sprintf("{prune=%v new-state=%v aux=%v entries=%d}", f.prune, f.newState, f.aux, f.entries)
}

func (f flags) target() migration.SchemaVersion {
	var t migration.SchemaVersion
	for i := 0; i < f.entries; i++ {
		switch i {
		case idxBlockTx, idxSDL:
			t.Set(uint8(i))
		case idxPrune:
			if f.prune {
				t.Set(uint8(i))
			}
		case idxNewState:
			if f.newState {
				t.Set(uint8(i))
			}
		case idxAux:
			if f.aux {
				t.Set(uint8(i))
			}
		}
	}
	return t
}

// releasedSchema is the bit assignment of the released schema: schema metadata (applied bits, last
// target) and resume tokens written by earlier releases use exactly these positions, whatever flags
// the node was started with. It is a constant of the harness, stated from the released schema; it
// is NOT derived from the registry under test (that registry is judged against it).
type schemaSlot struct {
	what    string       // for messages
	optFlag string       // "" = mandatory
	typ     reflect.Type // the migration registered at this position
}

var releasedSchema = [nProd]schemaSlot{
	idxBlockTx:  {"block-transactions", "", reflect.TypeOf(&blocktransactions.Migrator{})},
	idxPrune:    {"history-pruning", "prune-mode", reflect.TypeOf(&historyprunner.Migrator{})},
	idxNewState: {"head-state", "new-state", reflect.TypeOf(&headstate.Migrator{})},
	idxSDL:      {"state-diff-length", "", reflect.TypeOf(&statedifflength.Migrator{})},
}

// nodeConfig is the part of node.Config a start with flags f hands to node.registerMigrations.
func nodeConfig(f flags) *Config {
	return &Config{Prune: f.prune, NewState: f.newState, RetainedBlocks: f.retained, PruneMinAge: f.minAge}
}

// flagCombos: every combination of the node's optional-migration flags the harness starts binaries with.
var flagCombos = [...]struct{ prune, newState bool }{{false, false}, {false, true}, {true, false}, {true, true}}

// registryShape is the structural oracle of the node's registry construction (the CURRENT source of
// node.registerMigrations, see overlay.py), evaluated at every start: whatever the start flags, the
// registry the node would build has the released number of entries, the released optional flag
// names at the released positions and the released migration at every position. A registry whose
// shape depends on the start flags gives one bit two meanings across restarts with different flags
// (or across an upgrade from a release): pending migrations no longer run once and in order, and
// the refusal of binaries that lack an applied / opted-in migration judges the wrong migration.
// Only Count / OptionalMigrationFlags / Entries are looked at; which optional entries a flag
// combination enables is left to the behavioural oracles.
func registryShape(f flags) *mismatch {
	for _, fc := range flagCombos {
		g := f
		g.prune, g.newState = fc.prune, fc.newState
		r := nodeRegisterMigrations(nodeConfig(g))
		combo := fmt.Sprintf("prune-mode=%v,new-state=%v", fc.prune, fc.newState)
		if r.Count() != nProd {
			return &mismatch{"registry_shape", fmt.Sprintf("%s:count_%d_released_%d", combo, r.Count(), nProd),
				fmt.Sprintf("started with %s the node registers %d migrations %s; the released schema has %d positions %s", combo, r.Count(), shapeStr(r), nProd, releasedStr())}
		}
		names, entries := r.OptionalMigrationFlags(), r.Entries()
		for i, want := range releasedSchema {
			if names[i] != want.optFlag {
				return &mismatch{"registry_shape", fmt.Sprintf("%s:index_%d_is_%s_released_%s", combo, i, optStr(names[i]), optStr(want.optFlag)),
					fmt.Sprintf("started with %s the node registers %s; released schema: %s", combo, shapeStr(r), releasedStr())}
			}
			if got := reflect.TypeOf(entries[i]); got != want.typ {
				return &mismatch{"registry_shape", fmt.Sprintf("%s:index_%d_migration_%v_released_%v", combo, i, got, want.typ),
					fmt.Sprintf("started with %s the node registers %s; released schema: %s", combo, shapeStr(r), releasedStr())}
			}
		}
	}
	return nil
}

func optStr(flag string) string {
	if flag == "" {
		return "mandatory"
	}
	return "optional(" + flag + ")"
}

func shapeStr(r *migration.Registry) string {
	names := r.OptionalMigrationFlags()
	s := "["
	for i, m := range r.Entries() {
		s += fmt.Sprintf("%d:%T", i, m)
		if names[i] != "" {
			s += "(optional --" + names[i] + ")"
		}
		s += " "
	}
	return strings.TrimSuffix(s, " ") + "]"
}

func releasedStr() string {
	s := "["
	for i, w := range releasedSchema {
		s += fmt.Sprintf("%d:%v", i, w.typ)
		if w.optFlag != "" {
			s += "(optional --" + w.optFlag + ")"
		}
		s += " "
	}
	return strings.TrimSuffix(s, " ") + "]"
}

// prodRegistry is the registry of one binary start: the production part is built by the CURRENT
// source of node.registerMigrations (nodeRegisterMigrations, generated by overlay.py) from the
// start's flags; every entry is then re-registered, wrapped in a recorder, at the SAME position
// with the same optional flag name and the same enabled state, using only the registry's public
// API (entry i is optional iff its flag name is non-empty, enabled iff bit i of the target version
// is set). The recorder's index is the position in the registry under test - the position the
// runner persists - and is what the behavioural oracles compare with the released assignment.
// f.entries < nProd models an older binary that knows only the first f.entries migrations;
// f.entries > nProd appends the harness's well-behaved optional migration after the node's entries.
func prodRegistry(e *env, f flags, rl *runLog, aux *toy) *migration.Registry {
	if m := registryShape(f); m != nil && e.shape == nil {
		// reported when the run ends unless a behavioural oracle speaks first (see C18)
		e.shape = m
		e.c.Logf("registry shape differs from the released schema: %s", m.key)
	}
	node := nodeRegisterMigrations(nodeConfig(f))
	entries, names, tgt := node.Entries(), node.OptionalMigrationFlags(), node.TargetVersion()
	keep := len(entries)
	if f.entries < nProd {
		keep = min(keep, f.entries)
	}
	r := migration.NewRegistry()
	for i := 0; i < keep; i++ {
		m := &recMig{inner: entries[i], idx: i, rl: rl}
		if enabled := tgt.Has(uint8(i)); names[i] != "" || !enabled {
			r.WithOptional(m, enabled, names[i])
		} else {
			r.With(m)
		}
	}
	if f.entries > nProd {
		r.WithOptional(&recMig{inner: aux, idx: r.Count(), rl: rl}, f.aux, "jsim-aux")
	}
	return r
}

// ---------------------------------------------------------------------------------------------
// toy migrations

const toyBucket = 0xee // not a bucket of the repository

var errToy = errors.New("toy migration: transient failure")

type outcome int

const (
	outFinish      outcome = iota // do the remaining work, return (nil, nil)
	outPartial                    // one unit of work, return (state, nil)
	outCancelState                // one unit of work, the context is cancelled, return (state, ctx.Err())
	outCancelNil                  // the context is cancelled, return (nil, ctx.Err()) without finishing
	outFailNil                    // return (nil, err)
	outFailState                  // return (state, err)
	outFailDeadline               // return (nil, error wrapping context.DeadlineExceeded) while the run's context is ALIVE (an internal timeout)
	outFailCanceled               // one unit of work, return (state, error wrapping context.Canceled) while the run's context is ALIVE (an internal, derived context)
	nOutcomes
)

func (o outcome) String() string {
	return [...]string{"finish", "partial(state,nil)", "cancel(state,ctxerr)", "cancel(nil,ctxerr)", "fail(nil,err)", "fail(state,err)", "fail(nil,internal_deadline)", "fail(state,internal_cancel)"}[o]
}

// toy is a harness-defined migration: `units` marker keys have to be written, progress is the
// resume token. What each invocation does is scripted; an exhausted script finishes.
type toy struct {
	id     int
	units  int
	script []outcome
	pos    *int // persistent script position (the script belongs to the environment, not to the process)
	wrap   bool // wrap ctx.Err() with %w
	// onCancel: what a toy does when it finds the context already cancelled at entry / between units
	nilOnCancel bool // return (nil, ctx.Err()) instead of (state, ctx.Err())
	cancel      func()
	progress    int
	log         func(string, ...any)
	executed    map[outcome]int
}

func toyKey(id, unit int) []byte { return []byte{toyBucket, byte(id), byte(unit)} }

func (t *toy) Before(st []byte) error {
	t.progress = 0
	if len(st) > 0 {
		t.progress = int(st[0])
	}
	return nil
}

func (t *toy) ctxErr(ctx context.Context) error {
	if t.wrap {
		return fmt.Errorf("toy %d interrupted: %w", t.id, ctx.Err())
	}
	return ctx.Err()
}

func (t *toy) unit(d db.KeyValueStore) error {
	if t.progress >= t.units {
		return nil
	}
	b := d.NewBatch()
	if err := b.Put(toyKey(t.id, t.progress), []byte{byte(t.id), byte(t.progress), 0x5a}); err != nil {
		return err
	}
	if err := b.Write(); err != nil {
		return err
	}
	t.progress++
	return nil
}

func (t *toy) state() []byte { return []byte{byte(t.progress)} }

func (t *toy) Migrate(ctx context.Context, d db.KeyValueStore, _ *networks.Network, _ log.StructuredLogger) ([]byte, error) {
	if ctx.Err() != nil {
		if t.nilOnCancel {
			t.executed[outCancelNil]++
			return nil, t.ctxErr(ctx)
		}
		t.executed[outCancelState]++
		return t.state(), t.ctxErr(ctx)
	}
	o := outFinish
	if t.pos != nil && *t.pos < len(t.script) {
		o = t.script[*t.pos]
		*t.pos++
	}
	t.executed[o]++
	switch o {
	case outPartial:
		if t.progress >= t.units-1 {
			break // nothing would be left: finish instead
		}
		if err := t.unit(d); err != nil {
			return t.state(), err
		}
		return t.state(), nil
	case outCancelState:
		if err := t.unit(d); err != nil {
			return t.state(), err
		}
		t.cancel()
		return t.state(), t.ctxErr(ctx)
	case outCancelNil:
		t.cancel()
		return nil, t.ctxErr(ctx)
	case outFailNil:
		return nil, errToy
	case outFailState:
		return t.state(), errToy
	case outFailDeadline:
		return nil, fmt.Errorf("toy %d: internal step timed out: %w", t.id, context.DeadlineExceeded)
	case outFailCanceled:
		if err := t.unit(d); err != nil {
			return t.state(), err
		}
		return t.state(), fmt.Errorf("toy %d: derived context ended: %w", t.id, context.Canceled)
	}
	for t.progress < t.units {
		if ctx.Err() != nil { // cancelled from outside between units
			if t.nilOnCancel {
				return nil, t.ctxErr(ctx)
			}
			return t.state(), t.ctxErr(ctx)
		}
		if err := t.unit(d); err != nil {
			return t.state(), err
		}
	}
	return nil, nil
}
