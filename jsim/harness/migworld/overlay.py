#!/usr/bin/env python3
"""Build-time guard of the migration world (no file of the repository is replaced).

The harness mirrors node.registerMigrations (the node package itself is not linked) and relies on
the batch size of the block-transactions migration. This script fails the build loudly when the
CURRENT sources of the repository no longer match what the harness mirrors, and writes an empty
overlay.
"""
import json, os, re, sys

repo = os.environ.get("JSIM_REPO", "/repo").rstrip("/")


def die(msg):
    print("migworld/overlay.py: " + msg)
    sys.exit(1)


src = open(os.path.join(repo, "node/migration.go")).read()
m = re.search(r"func registerMigrations\(.*?\n}\n", src, re.S)
if not m:
    die("node/migration.go: registerMigrations not found")
body = re.sub(r"\s+", "", m.group(0))
want = ("migration.NewRegistry()."
        "With(&blocktransactions.Migrator{})."
        "WithOptional(historyprunner.New(cfg.RetainedBlocks,cfg.PruneMinAge),cfg.Prune,PruneModeFlag,)."
        "WithOptional(&headstate.Migrator{},cfg.NewState,\"new-state\")."
        "With(&statedifflength.Migrator{})")
if want not in body:
    die("node.registerMigrations changed: the harness mirrors exactly\n  " + want + "\nupdate prodRegistry/idx* in migs.go, world.go")
if len(re.findall(r"\.With(Optional)?\(", body)) != 4:
    die("node.registerMigrations registers a different number of migrations than the harness mirrors (4)")
if not re.search(r'PruneModeFlag\s*=\s*"prune-mode"', open(os.path.join(repo, "node/node.go")).read()):
    die('node.PruneModeFlag is no longer "prune-mode"')
bt = open(os.path.join(repo, "migration/blocktransactions/blocktransactions.go")).read()
if not re.search(r"\n\tbatchSize = 10\n", bt):
    die("blocktransactions.batchSize is no longer 10: update batchSize and blockCounts in world.go")

with open(sys.argv[1], "w") as f:
    json.dump({"Replace": {}}, f)
