#!/usr/bin/env python3
"""Build-time generator of the migration world (no file of the repository is replaced).

Package node cannot be linked into the harness (cgo / jemalloc), but the registry the node builds is
part of what C18 judges. This script therefore copies the CURRENT source of

    func registerMigrations(cfg *Config) *migration.Registry      ($REPO/node/migration.go)

verbatim (renamed nodeRegisterMigrations) into a generated Go file which the overlay ADDS to package
migworld, together with the imports the function needs, a local `type Config struct` holding the
four fields of node.Config the function may read (declarations copied from $REPO/node/node.go) and
the constant PruneModeFlag (copied from $REPO/node/node.go). The harness calls the generated
function with the flags of every simulated start (migs.go: prodRegistry) and judges the registry it
returns against the released bit assignment (migs.go: releasedSchema).

The generated file lives under /verif/build/ov/migworld/<tag>/ with <tag> derived from $JSIM_REPO,
so that concurrent checks against different copies of the repository do not clobber each other.
The overlay JSON itself (/verif/build/overlay-migworld.json) is shared between such checks; to make
a mix-up impossible the generated file imports a marker package that the same JSON adds to the
tree of THAT copy of the repository only: a build of another copy that picks up this JSON fails
("package .../jsimc18mark is not in ...") instead of silently testing the wrong source.

If the function needs anything this file cannot provide (another parameter list, another field of
Config, another package-level identifier of package node) the script fails with a message saying
what is missing; the check then ends as machinery trouble (exit 2), never as a verdict.

It also keeps the guard on the batch size of the block-transactions migration (world.go).
"""
import hashlib, json, os, re, sys

HERE = os.path.dirname(os.path.abspath(__file__))
VERIF = os.path.dirname(os.path.dirname(os.path.dirname(HERE)))
repo = os.environ.get("JSIM_REPO", "/repo").rstrip("/")
tag = hashlib.sha1(repo.encode()).hexdigest()[:10]
GEN_NAME = "zz_node_registry_gen.go"  # does not exist in the package directory: the overlay adds it
FUNC = "registerMigrations"
NEWFUNC = "nodeRegisterMigrations"
# fields of node.Config the generated Config offers (the start flags the harness models)
FIELDS = ["Prune", "NewState", "RetainedBlocks", "PruneMinAge"]
FIELD_TYPES = {"bool": None, "uint64": None, "uint": None, "int": None, "int64": None, "time.Duration": "time"}


def die(msg):
    print("migworld/overlay.py: " + msg)
    sys.exit(1)


def read(rel):
    p = os.path.join(repo, rel)
    try:
        return open(p).read()
    except OSError as e:
        die("cannot read %s: %s" % (p, e))


def blank(src):
    """Comments and string/rune literals replaced by spaces (same length), for token scans."""
    out = []
    i, n = 0, len(src)
    while i < n:
        two = src[i:i + 2]
        if two == "//":
            j = src.find("\n", i)
            j = n if j < 0 else j
        elif two == "/*":
            j = src.find("*/", i + 2)
            j = n if j < 0 else j + 2
        elif src[i] == "`":
            j = src.find("`", i + 1)
            j = n if j < 0 else j + 1
        elif src[i] in "\"'":
            q, j = src[i], i + 1
            while j < n and src[j] != q and src[j] != "\n":
                j += 2 if src[j] == "\\" else 1
            j = min(n, j + 1)
        else:
            out.append(src[i])
            i += 1
            continue
        out.append(re.sub(r"[^\n]", " ", src[i:j]))
        i = j
    return "".join(out)


# ---------------------------------------------------------------------------------------------
# node/migration.go: imports and the function

msrc = read("node/migration.go")
imports = []  # (name used in the file, spec as written without trailing comment)
mi = re.search(r"^import \(\n(.*?)^\)", msrc, re.S | re.M)
if not mi:
    die("node/migration.go: no parenthesised import block found")
for line in mi.group(1).splitlines():
    line = re.sub(r"\s*//.*$", "", line).strip()
    if not line:
        continue
    m = re.fullmatch(r'(?:([A-Za-z_]\w*|\.|_)\s+)?"([^"]+)"', line)
    if not m:
        die("node/migration.go: cannot parse import line %r" % line)
    alias, path = m.group(1), m.group(2)
    if alias == ".":
        die("node/migration.go: dot import of %s: the generated file cannot tell which identifiers it provides" % path)
    if alias == "_":
        continue
    name = alias or path.rsplit("/", 1)[-1]
    imports.append((name, ("%s " % alias if alias else "") + '"%s"' % path))

mf = re.search(r"^func %s\((.*?)\)(.*?)\{\n(.*?)^\}\n" % FUNC, msrc, re.S | re.M)
if not mf:
    die("node/migration.go: func %s not found" % FUNC)
params, results, body = mf.group(1), mf.group(2).strip(), mf.group(3)
pm = re.fullmatch(r"\s*([A-Za-z_]\w*)\s+\*Config\s*,?\s*", params)
if not pm:
    die("node.%s now takes (%s): the harness can only supply one *Config built from the start flags %s; "
        "extend overlay.py / migs.go:prodRegistry" % (FUNC, " ".join(params.split()), FIELDS))
cfgname = pm.group(1)
if results != "*migration.Registry":
    die("node.%s now returns %r, the harness expects *migration.Registry" % (FUNC, results))
func_text = "func %s(%s)%s {\n%s}\n" % (NEWFUNC, params, " " + results, body)

code = blank(body)
toks = [(m.group(0), m.start(), m.end()) for m in re.finditer(r"[A-Za-z_]\w*", code)]


def prev_char(pos):
    j = pos - 1
    while j >= 0 and code[j] in " \t\n":
        j -= 1
    return code[j] if j >= 0 else ""


def next_chars(pos):
    j = pos
    while j < len(code) and code[j] in " \t\n":
        j += 1
    return code[j:j + 2]


KEYWORDS = set("break case chan const continue default defer else fallthrough for func go goto if import interface map "
               "package range return select struct switch type var".split())
PREDECL = set("any bool byte comparable complex64 complex128 error float32 float64 int int8 int16 int32 int64 rune string "
              "uint uint8 uint16 uint32 uint64 uintptr true false iota nil append cap clear close complex copy delete imag "
              "len make max min new panic print println real recover _".split())
impnames = {n for n, _ in imports}
declared = {cfgname}
for m in re.finditer(r"([A-Za-z_]\w*(?:\s*,\s*[A-Za-z_]\w*)*)\s*:=", code):
    declared.update(x.strip() for x in m.group(1).split(","))
for m in re.finditer(r"\b(?:var|const|type)\s+([A-Za-z_]\w*)", code):
    declared.add(m.group(1))
for m in re.finditer(r"\bfunc\s*\(([^)]*)\)", code):  # parameters of function literals
    for part in m.group(1).split(","):
        w = part.split()
        if len(w) >= 2:
            declared.add(w[0])

used_imports, cfg_fields, free = set(), set(), set()
for i, (name, s, e) in enumerate(toks):
    if prev_char(s) == ".":
        if i > 0 and toks[i - 1][0] == cfgname and prev_char(toks[i - 1][1]) != ".":
            cfg_fields.add(name)
        continue
    if name in KEYWORDS or name in PREDECL or name in declared:
        continue
    nx = next_chars(e)
    if name in impnames and nx.startswith("."):
        used_imports.add(name)
        continue
    if nx.startswith(":") and nx != ":=":
        continue  # key of a composite literal / label
    free.add(name)

provided = {"PruneModeFlag", "Config"}
missing = sorted(free - provided)
if missing:
    die("node.%s uses identifier(s) %s of package node which the generated file does not provide "
        "(it provides Config{%s} and PruneModeFlag); extend overlay.py" % (FUNC, ", ".join(missing), ", ".join(FIELDS)))
extra = sorted(cfg_fields - set(FIELDS))
if extra:
    die("node.%s reads %s: the harness models only the start flags %s; extend overlay.py "
        "(FIELDS) and migs.go (flags, prodRegistry, flagCombos)" % (FUNC, ", ".join(cfgname + "." + x for x in extra), FIELDS))

# ---------------------------------------------------------------------------------------------
# node/node.go: PruneModeFlag and the declarations of the Config fields

nsrc = read("node/node.go")
mp = re.search(r'^\s*PruneModeFlag\s*(?:string\s*)?=\s*("(?:[^"\\\n]|\\.)*")\s*(?://.*)?$', nsrc, re.M)
if not mp:
    die("node/node.go: constant PruneModeFlag = \"...\" not found")
prune_flag_lit = mp.group(1)

mc = re.search(r"^type Config struct \{\n(.*?)^\}\n", nsrc, re.S | re.M)
if not mc:
    die("node/node.go: type Config struct not found")
field_decl = {}
for line in blank(mc.group(1)).splitlines():
    m = re.match(r"^\s+([A-Za-z_]\w*)\s+([\w.*\[\]]+)\s*$", line.rstrip())
    if m and m.group(1) in FIELDS:
        field_decl[m.group(1)] = m.group(2)
need_imports = set()
for f in FIELDS:
    if f not in field_decl:
        if f in cfg_fields:
            die("node/node.go: field Config.%s (read by %s) not found" % (f, FUNC))
        continue
    t = field_decl[f]
    if t not in FIELD_TYPES:
        die("node.Config.%s has type %s now; the harness knows %s: extend overlay.py and migs.go" % (f, t, sorted(FIELD_TYPES)))
    if FIELD_TYPES[t]:
        need_imports.add(FIELD_TYPES[t])
# the harness assigns these (migs.go): their types are part of what it relies on
WANT_TYPES = {"Prune": "bool", "NewState": "bool", "RetainedBlocks": "uint64", "PruneMinAge": "time.Duration"}
for f, t in WANT_TYPES.items():
    if field_decl.get(f) != t:
        die("node.Config.%s is %s now (harness: %s): update migs.go:prodRegistry and WANT_TYPES" % (f, field_decl.get(f, "absent"), t))

# ---------------------------------------------------------------------------------------------
# other guards of the world

bt = read("migration/blocktransactions/blocktransactions.go")
if not re.search(r"\n\tbatchSize = 10\n", bt):
    die("blocktransactions.batchSize is no longer 10: update batchSize and blockCounts in world.go")

# ---------------------------------------------------------------------------------------------
# generated files

MARK_PKG = "jsimc18mark"
mark_ident = "Repo_" + tag
imp_lines = []
std = sorted(need_imports - {spec.strip('"') for n, spec in imports if n in used_imports})
for p in std:
    imp_lines.append('\t"%s"' % p)
for n, spec in imports:
    if n in used_imports:
        imp_lines.append("\t" + spec)
imp_lines.append('\t"github.com/NethermindEth/juno/%s"' % MARK_PKG)

gen = """// Code generated by harness/migworld/overlay.py from %(repo)s/node/migration.go and node/node.go. DO NOT EDIT.
//
// The body of %(newfunc)s is the verbatim source of node.%(func)s.

package migworld

import (
%(imports)s
)

// this file belongs to the build of %(repo)s (see overlay.py)
const _ = %(markpkg)s.%(mark)s

// Config holds the fields of node.Config that node.%(func)s may read (declarations from node/node.go).
type Config struct {
%(fields)s
}

// PruneModeFlag is node.PruneModeFlag.
const PruneModeFlag = %(flag)s

%(functext)s""" % {
    "repo": repo, "newfunc": NEWFUNC, "func": FUNC, "imports": "\n".join(imp_lines), "markpkg": MARK_PKG, "mark": mark_ident,
    "fields": "\n".join("\t%s %s" % (f, field_decl[f]) for f in FIELDS if f in field_decl),
    "flag": prune_flag_lit, "functext": func_text,
}
mark = "// Code generated by harness/migworld/overlay.py. DO NOT EDIT.\n\n// Package %s marks the copy of the repository a generated harness file was extracted from.\npackage %s\n\nconst %s = true\n" % (MARK_PKG, MARK_PKG, mark_ident)

outdir = os.path.join(VERIF, "build", "ov", "migworld", tag)
os.makedirs(outdir, exist_ok=True)


def put(path, text):
    tmp = "%s.%d.tmp" % (path, os.getpid())
    with open(tmp, "w") as f:
        f.write(text)
    os.replace(tmp, path)


gen_path = os.path.join(outdir, GEN_NAME)
mark_path = os.path.join(outdir, "mark.go")
put(gen_path, gen)
put(mark_path, mark)
put(sys.argv[1], json.dumps({"Replace": {
    os.path.join(HERE, GEN_NAME): gen_path,
    os.path.join(repo, MARK_PKG, "mark.go"): mark_path,
}}, indent=1))
