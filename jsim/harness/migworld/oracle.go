package migworld

import (
	"fmt"

	"github.com/NethermindEth/juno/blockchain"
	"github.com/NethermindEth/juno/core"
	"github.com/NethermindEth/juno/core/felt"
	"github.com/NethermindEth/juno/db"
	"github.com/NethermindEth/juno/db/memory"
	"github.com/NethermindEth/juno/l1/eth"
	"github.com/NethermindEth/juno/migration"

	"jsim/chaingen"
	"jsim/harness/node"
)

type mismatch struct{ class, key, detail string }

type softFail struct{ m mismatch }

// imgChecker compares a database image, read through the CURRENT accessors of a fresh Blockchain,
// with the generated (pre-migration) content.
type imgChecker struct {
	w     *world
	img   *memory.Database
	bc    *blockchain.Blockchain
	evals int
	class string // when set, replaces the violation class of the shared block checks
}

func (k *imgChecker) fail(class, key, format string, a ...any) {
	if k.class != "" && (class == "data_lost" || class == "data_changed" || class == "migrated_block_emptied" || class == "block_unreadable" || class == "block_lost") {
		class = k.class
	}
	panic(softFail{mismatch{class, key, fmt.Sprintf(format, a...)}})
}

func (k *imgChecker) eq(what string, want, got any, err error) {
	k.evals++
	if err != nil {
		k.fail("data_lost", what, "%s: unexpected error %v", what, err)
	}
	cw, cg := canon(want), canon(got)
	if cw != cg {
		k.fail("data_changed", what, "%s differs from the pre-migration content: %s", what, firstDiff(cw, cg))
	}
}

func (k *imgChecker) wantNotFound(what string, err error) {
	k.evals++
	if err == nil {
		k.fail("data_changed", what, "%s: expected not-found, got a value", what)
	}
	if !isNotFound(err) {
		k.fail("data_changed", what+"_errclass", "%s: expected db.ErrKeyNotFound, got %v", what, err)
	}
}

// checkData: every retained block's transactions, receipts and derived lookups equal the model.
// wantSDL: the state-diff-length migration is expected to have run.
func checkData(w *world, img *memory.Database, wantSDL bool) (res *mismatch, evals int) {
	k := &imgChecker{w: w, img: img, bc: blockchain.New(img, w.net)}
	defer func() {
		evals = k.evals
		if r := recover(); r != nil {
			sf, ok := r.(softFail)
			if !ok {
				panic(r)
			}
			res = &sf.m
		}
	}()
	h, err := k.bc.Height()
	if len(w.chain) == 0 {
		k.wantNotFound("Height(empty chain)", err)
	} else {
		k.eq("Height", uint64(len(w.chain)-1), h, err)
	}
	for _, b := range w.chain {
		if w.lay == layoutPruned && b.B.Number < w.floor {
			continue
		}
		k.checkBlock(b, wantSDL)
	}
	return nil, k.evals
}

func (k *imgChecker) checkBlock(b *chaingen.Block, wantSDL bool) {
	bc := k.bc
	num := b.B.Number
	if raw, err := bc.TransactionsByBlockNumber(num); err == nil && len(raw) == 0 && len(b.B.Transactions) > 0 {
		k.evals++
		k.fail("migrated_block_emptied", "transactions_emptied", "block %d had %d transactions before the upgrade; TransactionsByBlockNumber now returns an empty list (header TransactionCount=%d)", num, len(b.B.Transactions), b.B.TransactionCount)
	}
	blk, err := bc.BlockByNumber(num)
	if err != nil && isNotFound(err) {
		// refine the key: which record is missing
		if _, herr := bc.BlockHeaderByNumber(num); herr == nil {
			if has, _ := core.BlockTransactionsBucket.Has(k.img, num); !has {
				k.evals++
				// Two classes, because the minimiser keeps a shrunk tape whenever the CLASS persists: a lost
				// block that had transactions must not shrink into the documented behaviour of the unchanged
				// code for blocks without transactions (known finding block_unreadable:no_combined_entry_empty_block)
				class, kind := "block_lost", "block_with_transactions"
				if len(b.B.Transactions) == 0 {
					class, kind = "block_unreadable", "empty_block"
					// The recorded finding explains only empty blocks BELOW the first block that still has
					// old-layout entries when a start begins. In the uninterrupted upgrade of a database
					// that is entirely in the old layout that is the chain's first block with transactions:
					// an empty block above it lies inside the range that very start converts.
					if k.w.judgingUninterrupted && k.w.lay == layoutOldTx {
						for _, x := range k.w.chain {
							if len(x.B.Transactions) > 0 {
								if x.B.Number < num {
									class, kind = "block_lost", "empty_block_inside_the_converted_range_of_an_uninterrupted_upgrade"
								}
								break
							}
						}
					}
				}
				k.fail(class, "no_combined_entry_"+kind, "BlockByNumber(%d) fails with %v: the block (%d transactions) has a header but no entry in the combined transactions bucket", num, err, len(b.B.Transactions))
			}
		}
	}
	k.eq("BlockByNumber", b.B, blk, err)
	blk, err = bc.BlockByHash(b.B.Hash)
	k.eq("BlockByHash", b.B, blk, err)
	hd, err := bc.BlockHeaderByNumber(num)
	k.eq("BlockHeaderByNumber", b.B.Header, hd, err)
	cnt, err := bc.BlockTransactionCountByNumber(num)
	k.eq("BlockTransactionCountByNumber", uint64(len(b.B.Transactions)), cnt, err)
	txs, err := bc.TransactionsByBlockNumber(num)
	k.eq("TransactionsByBlockNumber", b.B.Transactions, txs, err)
	txs2, rcs2, err := bc.TransactionsAndReceiptsByBlockNumber(num)
	k.eq("TransactionsAndReceiptsByBlockNumber.txs", b.B.Transactions, txs2, err)
	k.eq("TransactionsAndReceiptsByBlockNumber.receipts", b.B.Receipts, rcs2, err)
	hashes, err := bc.TransactionHashesByBlockNumber(num)
	wantHashes := make([]felt.Felt, len(b.B.Transactions))
	for i, tx := range b.B.Transactions {
		wantHashes[i] = *tx.Hash()
	}
	k.eq("TransactionHashesByBlockNumber", wantHashes, hashes, err)
	su, err := bc.StateUpdateByNumber(num)
	k.eq("StateUpdateByNumber", b.SU, su, err)
	comm, err := bc.BlockCommitmentsByNumber(num)
	if err != nil || comm == nil {
		k.fail("data_lost", "BlockCommitmentsByNumber", "BlockCommitmentsByNumber(%d): %v", num, err)
	}
	_, wantComm, herr := core.BlockHash(node.CloneBlock(b.B), b.SU.StateDiff, k.w.net, nil, core.DeprecatedTrieBackend)
	if herr != nil {
		panic(fmt.Sprintf("recompute commitments: %v", herr))
	}
	if wantComm.StateDiffLength != b.SU.StateDiff.Length() {
		panic("model: commitments' state diff length is not the diff's length")
	}
	if !wantSDL {
		wantComm.StateDiffLength = 0
	}
	k.eq("BlockCommitmentsByNumber", wantComm, comm, nil)

	for i, tx := range b.B.Transactions {
		idx := uint64(i)
		rc := b.B.Receipts[i]
		got, err := bc.TransactionByHash(tx.Hash())
		k.eq("TransactionByHash", tx, got, err)
		got, err = bc.TransactionByBlockNumberAndIndex(num, idx)
		k.eq("TransactionByBlockNumberAndIndex", tx, got, err)
		gbn, gidx, err := bc.BlockNumberAndIndexByTxHash((*felt.TransactionHash)(tx.Hash()))
		k.eq("BlockNumberAndIndexByTxHash.number", num, gbn, err)
		k.eq("BlockNumberAndIndexByTxHash.index", idx, gidx, err)
		grc, gbh, gnum, err := bc.Receipt(tx.Hash())
		k.eq("Receipt", rc, grc, err)
		k.eq("Receipt.blockHash", b.B.Hash, gbh, err)
		k.eq("Receipt.blockNumber", num, gnum, err)
		gtx, grc2, gbh2, err := bc.TransactionAndReceiptByBlockNumberAndIndex(num, idx)
		k.eq("TransactionAndReceiptByBlockNumberAndIndex.tx", tx, gtx, err)
		k.eq("TransactionAndReceiptByBlockNumberAndIndex.receipt", rc, &grc2, err)
		k.eq("TransactionAndReceiptByBlockNumberAndIndex.blockHash", b.B.Hash, gbh2, err)
		st, err := bc.TransactionExecutionStatusByBlockNumberAndIndex(num, idx)
		k.eq("TransactionExecutionStatusByBlockNumberAndIndex", core.TransactionExecutionStatus{Reverted: rc.Reverted, RevertReason: rc.RevertReason}, st, err)
		if l1, ok := tx.(*core.L1HandlerTransaction); ok {
			var mh [32]byte
			copy(mh[:], l1.MessageHash())
			gh, err := bc.L1HandlerTxnHash((*eth.Hash)(&mh))
			k.eq("L1HandlerTxnHash", *tx.Hash(), gh, err)
		}
	}
	evs, err := core.GetTransactionEventsByBlockNumber(k.img, num)
	wantEvs := make([]core.TransactionEvents, len(b.B.Receipts))
	for i, r := range b.B.Receipts {
		wantEvs[i] = core.TransactionEvents{Events: r.Events, TransactionHash: r.TransactionHash}
	}
	k.eq("GetTransactionEventsByBlockNumber", wantEvs, evs, err)
	n := uint64(len(b.B.Transactions))
	_, err = bc.TransactionByBlockNumberAndIndex(num, n)
	k.wantNotFound("TransactionByBlockNumberAndIndex(out of range)", err)
}

// countPrefix counts the keys of one bucket.
func countPrefix(img *memory.Database, b db.Bucket) int {
	it, err := img.NewIterator(b.Key(), true)
	if err != nil {
		panic(err)
	}
	defer it.Close()
	n := 0
	for ok := it.First(); ok; ok = it.Next() {
		n++
	}
	return n
}

// checkFinished: the bookkeeping of a completed upgrade.
func checkFinished(img *memory.Database, target migration.SchemaVersion, oldTxBuckets bool) *mismatch {
	md, err := migration.GetSchemaMetadata(img)
	if err != nil {
		return &mismatch{"bookkeeping", "metadata_missing_after_run", fmt.Sprintf("schema metadata unreadable after a completed run: %v", err)}
	}
	if !md.CurrentVersion.Contains(target) {
		return &mismatch{"bookkeeping", "target_not_applied_after_successful_run", fmt.Sprintf("run returned nil but applied=%b lacks target=%b", md.CurrentVersion, target)}
	}
	if md.LastTargetVersion != target {
		return &mismatch{"bookkeeping", "last_target_not_recorded", fmt.Sprintf("last target=%b, want %b", md.LastTargetVersion, target)}
	}
	if n := countPrefix(img, db.SchemaIntermediateState); n != 0 {
		return &mismatch{"bookkeeping", "resume_token_left_after_completion", fmt.Sprintf("%d intermediate-state entries left after all migrations completed", n)}
	}
	if oldTxBuckets {
		if n := countPrefix(img, db.TransactionsByBlockNumberAndIndex); n != 0 {
			return &mismatch{"old_bucket_not_empty", "TransactionsByBlockNumberAndIndex", fmt.Sprintf("%d entries left in the per-transaction bucket", n)}
		}
		if n := countPrefix(img, db.ReceiptsByBlockNumberAndIndex); n != 0 {
			return &mismatch{"old_bucket_not_empty", "ReceiptsByBlockNumberAndIndex", fmt.Sprintf("%d entries left in the per-receipt bucket", n)}
		}
	}
	return nil
}
