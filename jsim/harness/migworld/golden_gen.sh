#!/bin/bash
# Prints the golden bookkeeping records of golden.go from the repository /repo
# using that tree's own writers and (through two export files ADDED by a build overlay, nothing in the
# repository is touched) the unexported state encoders of the resumable migrations.
#   cd /verif/jsim && bash harness/migworld/golden_gen.sh
# Exit 0 + "PASS": the constants in golden.go are byte for byte what that tree writes.
set -e
export GOFLAGS=-mod=mod GOPROXY=off CGO_LDFLAGS=-L/verif/build/stublib
REPO=/repo
W=$(mktemp -d /dev/shm/c18golden.XXXXXX)
trap 'rm -rf "$W"' EXIT
cd /verif/jsim
python3 harness/migworld/overlay.py "$W/ov0.json"
cat > "$W/sdl.go" <<'EOG'
package statedifflength

func JsimEncodeResume(block uint64) []byte { return encodeResume(block) }
EOG
cat > "$W/hp.go" <<'EOG'
package historyprunner

func JsimEncodeIntermediateState(stager, restorer, oldest uint64) []byte {
	return encodeIntermediateState(stager, restorer, oldest)
}
EOG
python3 - "$W" "$REPO" <<'EOP'
import json, sys
w, repo = sys.argv[1], sys.argv[2]
o = json.load(open(w + "/ov0.json"))
o["Replace"][repo + "/migration/statedifflength/zz_jsim_golden_export.go"] = w + "/sdl.go"
o["Replace"][repo + "/migration/historyprunner/zz_jsim_golden_export.go"] = w + "/hp.go"
json.dump(o, open(w + "/ov.json", "w"))
EOP
echo "// repository: $REPO at $(git -C "$REPO" rev-parse HEAD) ($(git -C "$REPO" status --porcelain | wc -l) modified files)"
go test -c -vet=off -p 4 -tags goldengen -overlay "$W/ov.json" -o "$W/gen.test" ./harness/migworld
JSIM_GOLDEN=1 "$W/gen.test" -test.run '^TestGoldenGen$' -test.count 1
