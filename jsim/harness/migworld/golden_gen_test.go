//go:build goldengen

package migworld

import (
	"context"
	"fmt"
	"os"
	"testing"

	"github.com/NethermindEth/juno/blockchain/networks"
	"github.com/NethermindEth/juno/db"
	"github.com/NethermindEth/juno/db/memory"
	"github.com/NethermindEth/juno/migration"
	"github.com/NethermindEth/juno/migration/deprecated"
	"github.com/NethermindEth/juno/migration/historyprunner"
	"github.com/NethermindEth/juno/migration/statedifflength"
	"github.com/NethermindEth/juno/utils/log"
)

// TestGoldenGen (JSIM_GOLDEN=1) prints, as Go source, every bookkeeping record the writers of the
// repository the test binary was built from leave behind, for the values listed in golden.go. It was
// run ONCE on the pinned, unchanged /repo (commit goldenCommit) and its output pasted into golden.go;
// run on that tree again it also verifies that the constants are what that tree writes.
func TestGoldenGen(t *testing.T) {
	if os.Getenv("JSIM_GOLDEN") == "" {
		t.Skip("JSIM_GOLDEN not set")
	}
	dump := func(d *memory.Database) (k, v []byte) {
		it, err := d.NewIterator(nil, false)
		if err != nil {
			t.Fatal(err)
		}
		defer it.Close()
		n := 0
		for ok := it.First(); ok; ok = it.Next() {
			k = append([]byte(nil), it.Key()...)
			val, err := it.Value()
			if err != nil {
				t.Fatal(err)
			}
			v = append([]byte(nil), val...)
			n++
		}
		if n != 1 {
			t.Fatalf("writer left %d records", n)
		}
		return k, v
	}
	bad := 0
	fmt.Println("var goldenMeta = []goldenMetaRec{")
	for _, g := range goldenMeta {
		d := memory.New()
		if err := migration.WriteSchemaMetadata(d, migration.SchemaMetadata{CurrentVersion: migration.SchemaVersion(g.cur), LastTargetVersion: migration.SchemaVersion(g.tgt)}); err != nil {
			t.Fatal(err)
		}
		k, v := dump(d)
		fmt.Printf("\t{%#x, %#x, \"%x\", \"%x\"},\n", g.cur, g.tgt, k, v)
		if fmt.Sprintf("%x", k) != g.key || fmt.Sprintf("%x", v) != g.val {
			bad++
		}
	}
	fmt.Println("}")
	fmt.Println("var goldenState = []goldenStateRec{")
	for _, g := range goldenState {
		var st []byte
		switch g.mig {
		case idxSDL:
			// the migrator's own (unexported) encoder, exported for this test only by golden_gen.sh
			st = statedifflength.JsimEncodeResume(g.vals[0])
		case idxPrune:
			st = historyprunner.JsimEncodeIntermediateState(g.vals[0], g.vals[1], g.vals[2])
		default:
			st = []byte{} // block-transactions / head-state: "run me again", no content
		}
		d := memory.New()
		if err := migration.WriteIntermediateState(d, uint8(g.mig), st); err != nil {
			t.Fatal(err)
		}
		k, v := dump(d)
		fmt.Printf("\t{%d, %#v, \"%x\", \"%x\"},\n", g.mig, g.vals, k, v)
		if fmt.Sprintf("%x", k) != g.key || fmt.Sprintf("%x", v) != g.val {
			bad++
		}
	}
	fmt.Println("}")
	// the legacy (pre-registry) bookkeeping of a database on which every deprecated migration has run:
	// obtained by running them on an empty database, as a fresh node does
	{
		d := memory.New()
		if err := deprecated.MigrateIfNeeded(context.Background(), d, &networks.Sepolia, log.NewNopZapLogger()); err != nil {
			t.Fatal(err)
		}
		it, err := d.NewIterator(nil, false)
		if err != nil {
			t.Fatal(err)
		}
		fmt.Println("var goldenLegacy = []goldenRawRec{")
		i := 0
		for ok := it.First(); ok; ok = it.Next() {
			val, _ := it.Value()
			fmt.Printf("\t{\"%x\", \"%x\"},\n", it.Key(), val)
			if i >= len(goldenLegacy) || fmt.Sprintf("%x", it.Key()) != goldenLegacy[i].key || fmt.Sprintf("%x", val) != goldenLegacy[i].val {
				bad++
			}
			i++
		}
		if i != len(goldenLegacy) {
			bad++
		}
		fmt.Println("}")
		it.Close()
	}
	fmt.Printf("// buckets: SchemaMetadata=%d SchemaIntermediateState=%d DeprecatedSchemaVersion=%d DeprecatedSchemaIntermediateState=%d\n",
		db.SchemaMetadata, db.SchemaIntermediateState, db.DeprecatedSchemaVersion, db.DeprecatedSchemaIntermediateState)
	if bad != 0 {
		t.Errorf("%d constants of golden.go differ from what this tree writes (expected on a changed tree or before the constants were pasted)", bad)
	}
}
