package migworld

import (
	"errors"
	"fmt"
	"sort"
	"strings"

	"github.com/NethermindEth/juno/core"
	"github.com/NethermindEth/juno/db"
	"github.com/NethermindEth/juno/db/memory"
)

// Class real/read-error: ONE transient read error during ONE start of the upgrade.
//
// The start that suffers the error is the first start on the previous-layout image, the restart on a
// crash image of the uninterrupted run, or the restart after a cancelled first start. The read that
// fails is named by content - the ord-th scheduled read of a pipeline stage (stageOf) - so that the
// choice does not depend on anything the Go runtime decides. Get / Has return the error; NewIterator
// fails to open, or opens an iterator whose nth value read returns the error, or whose nth positioning
// call stops the iteration with the error reported by Close (db/pebble's behaviour).
//
// Oracle of the faulty start (nothing else is relaxed): it may return an error (any) or complete
// correctly. It must never
//
//	(a) record a migration as applied unless the database at that moment equals the database the
//	    uninterrupted run had at the moment it recorded the same migration,
//	(b) lose or alter content: the next healthy start must complete and pass the full end-state oracle
//	    (every accessor of every block against the generated content, empty old buckets, bookkeeping,
//	    key-value image equal to the uninterrupted run's),
//	(c) make that healthy start fail.
//
// A start whose targeted read never happened, or whose iterator was dropped before the failing call,
// suffered no fault at all and is judged like any healthy start.
//
// Only the injection point is part of the trace: what a pipeline still commits after one of its workers
// failed is decided by Go's select in pipeline.Source (cancellation and a ready receiver race).

const (
	sitFirst       = iota // first start on the previous-layout image (the uninterrupted run's schedule)
	sitAfterCrash         // restart on a crash image of the uninterrupted run
	sitAfterCancel        // restart after a cancelled first start
	nSituations
)

var sitName = [...]string{"first start", "restart after a crash", "restart after a cancellation"}

var readModeName = [...]string{"fail", "iter-value", "iter-stop"}

type readTrial struct {
	sit int
	k   int // sitAfterCrash: index into the crash images
	j   int // sitAfterCancel: operation of the first start at which the context is cancelled
	tgt readTarget
}

func (rc *realCase) readErrClass(ref *startRes, images []crashImage, refAfter map[int]*memory.Database, nTx int) {
	c, t := rc.e.c, rc.e.c.T
	// the stages that read, from the uninterrupted schedule (deterministic), sorted
	var stages []string
	for st := range ref.readStages {
		stages = append(stages, st)
	}
	sort.Strings(stages)
	if len(stages) == 0 {
		c.Broken("the uninterrupted run issued no read")
	}
	var trials []readTrial
	// A. enumeration: the first read of EVERY stage fails during the first start
	for _, st := range stages {
		tr := readTrial{sit: sitFirst, tgt: readTarget{stage: st}}
		if n := ref.readNames[st]; n == "iter" || n == "biter" {
			tr.tgt.mode = t.Draw("rderr.a.mode", nReadModes)
			if tr.tgt.mode != rfCall {
				tr.tgt.nth = t.Draw("rderr.a.nth", 3)
			}
		}
		trials = append(trials, tr)
	}
	// A2. the same enumeration for ONE restart after a crash and ONE restart after a cancellation (both
	// points tape-chosen), over the stages of the migration that the restart has to resume
	first := func(tr readTrial, st string) readTrial {
		tr.tgt = readTarget{stage: st}
		if n := ref.readNames[st]; n == "iter" || n == "biter" {
			tr.tgt.mode = t.Draw("rderr.a2.mode", nReadModes)
			if tr.tgt.mode != rfCall {
				tr.tgt.nth = t.Draw("rderr.a2.nth", 3)
			}
		}
		return tr
	}
	if len(images) > 0 {
		k := t.Draw("rderr.a2.k", len(images))
		pfx := "runner"
		for i := range rc.fF.target().Difference(readMeta(c, images[k].img).CurrentVersion).Iter() {
			pfx = migStagePrefix(int(i))
			break
		}
		for _, st := range stages {
			if strings.HasPrefix(st, pfx) {
				trials = append(trials, first(readTrial{sit: sitAfterCrash, k: k}, st))
			}
		}
	}
	{
		j := 1 + t.Draw("rderr.a2.j", rc.nOps)
		pfx := "runner"
		for _, st := range ref.stages[j-1:] { // the migration executing at (or first entered after) operation j of the uninterrupted schedule
			if st != "runner" {
				pfx = strings.SplitN(st, ".", 2)[0]
				break
			}
		}
		for _, st := range stages {
			if strings.HasPrefix(st, pfx) {
				trials = append(trials, first(readTrial{sit: sitAfterCancel, j: j}, st))
			}
		}
	}
	// B. tape-chosen start, stage, ordinal and manifestation
	nB := 3 + t.Draw("rderr.n", 6)
	if c.Tier == "thorough" {
		nB *= 3
	}
	for i := 0; i < nB; i++ {
		tr := readTrial{sit: t.Draw("rderr.sit", nSituations)}
		switch tr.sit {
		case sitAfterCrash:
			if len(images) == 0 {
				tr.sit = sitFirst
			} else {
				tr.k = t.Draw("rderr.k", len(images))
			}
		case sitAfterCancel:
			tr.j = 1 + t.Draw("rderr.j", rc.nOps)
		}
		st := stages[t.Draw("rderr.stage", len(stages))]
		tr.tgt = readTarget{stage: st, ord: t.Draw("rderr.ord", 4)}
		if t.Chance("rderr.deep", 1, 2) {
			tr.tgt.ord = t.Draw("rderr.ord.deep", ref.readStages[st])
		}
		tr.tgt.mode = t.Draw("rderr.mode", nReadModes)
		tr.tgt.nth = t.Draw("rderr.nth", 4)
		trials = append(trials, tr)
	}
	fired := 0
	for i, tr := range trials {
		if rc.readTrial(i, tr, images, refAfter) {
			fired++
		}
	}
	c.Nontrivial = fired >= 3 && nTx > 0
}

// migStagePrefix: the prefix stageOf gives the stages of a migration.
func migStagePrefix(idx int) string {
	switch idx {
	case idxBlockTx:
		return "blocktx"
	case idxPrune:
		return "prune"
	case idxNewState:
		return "headstate"
	case idxSDL:
		return "sdl"
	}
	return fmt.Sprintf("toy%d", idx)
}

// readTrial runs one faulty start followed by a healthy one; it reports whether the fault fired.
func (rc *realCase) readTrial(i int, tr readTrial, images []crashImage, refAfter map[int]*memory.Database) bool {
	e, c := rc.e, rc.e.c
	bin := rc.binary(rc.fF) // every start of this class is the uninterrupted run's binary
	var img *memory.Database
	var seed uint64
	what := sitName[tr.sit]
	switch tr.sit {
	case sitFirst:
		img, seed = rc.w.base.Copy(), rc.seed
	case sitAfterCrash:
		im := images[tr.k]
		img, seed = im.img.Copy(), mix(rc.seed, uint64(im.k))
		what = fmt.Sprintf("restart after a crash after commit %d of %d (%s)", im.k, rc.nCom, im.info)
		c.Fault("crash_after_commit")
	case sitAfterCancel:
		img, seed = rc.w.base.Copy(), mix(rc.seed, uint64(tr.j), 7)
		r0 := e.start(img, bin, inject{schedSeed: rc.seed, cancelAtOp: tr.j, tag: "rderr.cancel"})
		c.Evals++
		if r0.cancelFired {
			c.Fault("ctx_cancel_at_op")
		}
		if m := checkStart(r0, bin, false); m != nil {
			failM(c, m, fmt.Sprintf("start cancelled at operation %d (%s: %s)", tr.j, r0.cancelStage, r0.cancelInfo))
		}
		what = fmt.Sprintf("restart after a cancellation at operation %d (%s: %s)", tr.j, r0.cancelStage, r0.cancelInfo)
		c.Fault("restart")
	}
	tgt := tr.tgt
	// (a) is decided at the moment the runner records a migration as applied
	var early *mismatch
	in := inject{schedSeed: seed, readErr: &tgt, tag: "rderr"}
	in.onApplied = func(bit int, live *memory.Database) {
		if early != nil {
			return
		}
		want, ok := refAfter[bit]
		if !ok {
			return // not applied by the uninterrupted run: nothing to compare with
		}
		d := imageDiff(c, live, want)
		if d == nil {
			return
		}
		early = &mismatch{"applied_without_completion", fmt.Sprintf("migration_%d_database_not_final_bucket_%s", bit, diffBuckets(c, live, want)),
			fmt.Sprintf("migration %d was recorded as applied while the database differs from the database the uninterrupted run had when it recorded it: %s", bit, *d)}
		if bit != idxBlockTx {
			return
		}
		// Name what the block-transactions migration left behind. When a block WITH transactions has no
		// combined entry the migration was recorded without having converted it. When only blocks without
		// transactions are affected, the database shows the documented behaviour of the unchanged code
		// (empty blocks leave no old entries, so a resumed run never writes their combined entry): it is
		// reported under the key the end-state oracle gives it, not as a new kind of failure.
		for _, b := range rc.w.chain {
			if len(b.B.Transactions) == 0 {
				continue
			}
			if has, err := core.BlockTransactionsBucket.Has(live, b.B.Number); err == nil && !has {
				early.key = "migration_0_block_with_transactions_not_converted"
				early.detail = fmt.Sprintf("the block-transactions migration was recorded as applied while block %d (%d transactions) has no entry in the combined bucket (old per-transaction entries left: %d transactions, %d receipts): %s",
					b.B.Number, len(b.B.Transactions), countPrefix(live, db.TransactionsByBlockNumberAndIndex), countPrefix(live, db.ReceiptsByBlockNumberAndIndex), *d)
				return
			}
		}
		if m, _ := checkData(rc.w, live, false); m != nil {
			early = &mismatch{m.class, m.key, "the block-transactions migration was recorded as applied with this database: " + m.detail}
		}
	}
	r := e.start(img, bin, in)
	c.Evals++
	// the trace holds the injection point only (see the header); for a restart after a cancellation not
	// even the operation that was hit, because the cancelled start's last commits are the runtime's choice
	if tr.sit == sitAfterCancel {
		c.Logf("read fault %d: %s at operation %d; target %s read #%d mode=%s nth=%d", i, sitName[tr.sit], tr.j, tgt.stage, tgt.ord, readModeName[tgt.mode], tgt.nth)
	} else {
		c.Logf("read fault %d: %s; target %s read #%d mode=%s nth=%d: armed=%v at op %d %s fired=%v %s", i, what, tgt.stage, tgt.ord, readModeName[tgt.mode], tgt.nth,
			r.readArmed, r.readArmedAt, r.readInfo, r.readFired, r.readHow)
	}
	if r.capped {
		c.Inconclusive++
		return false
	}
	if !r.readFired {
		// no fault reached the code under test: a healthy start
		rc.judgeHealthy(r, bin, img, rc.fF, what, "no_fault")
		return false
	}
	c.Fault("read_error")
	c.Probe("read_error_" + r.readHow)
	kind := "read_error_at_" + tgt.stage + "_" + r.readHow
	if tgt.stage == "blocktx.first_block_scan" {
		c.Probe("read_error_at_first_block_scan")
		if tr.sit != sitFirst {
			c.Probe("read_error_at_restart_scan")
		}
	}
	what = fmt.Sprintf("%s suffering one read error (%s of operation %d %s, stage %s)", what, r.readHow, r.readArmedAt, r.readInfo, tgt.stage)
	errd := r.refused != nil || r.runErr != nil
	if errd {
		c.Probe("read_error_start_failed")
		if err := errors.Join(r.refused, r.runErr); !errors.Is(err, errReadInjected) {
			c.Probe("read_error_reported_as_derived_error")
		}
	}
	if early != nil {
		early.key += "_after_" + kind
		failM(c, early, what)
	}
	if m := checkStart(r, bin, !errd); m != nil {
		m.key += "_after_" + kind
		failM(c, m, what)
	}
	if !errd {
		c.Probe("read_error_start_succeeded")
		if r.post.CurrentVersion.Contains(bin.target) {
			// "may complete correctly": then it is a completed upgrade
			rc.checkFinal(img, rc.fF, what+", which reported success", kind, true)
		} else {
			// Run returned nil with the upgrade incomplete: a Migrate answered (state, nil) to the error.
			// The runner's handling of (state, nil) under a live context is observed, not judged.
			c.Inconclusive++
			c.Probe("read_error_swallowed_upgrade_incomplete")
		}
	}
	// (b), (c): the next healthy start completes the upgrade and the full end-state oracle holds
	rc.finish(img, rc.fF, inject{schedSeed: mix(seed, 99), tag: "rderr.heal"}, what+", then a healthy start", kind)
	c.Fault("restart")
	return true
}
