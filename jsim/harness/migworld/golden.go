package migworld

import (
	"bytes"
	bin "encoding/binary"
	"encoding/hex"
	"fmt"
	"reflect"

	"github.com/NethermindEth/juno/db"
	"github.com/NethermindEth/juno/db/memory"
	"github.com/NethermindEth/juno/migration"
	"github.com/NethermindEth/juno/migration/deprecated"
	"github.com/NethermindEth/juno/migration/historyprunner"
	"github.com/NethermindEth/juno/migration/statedifflength"
	"github.com/NethermindEth/juno/utils/log"

	"jsim/sim"
)

// Databases written by the PREVIOUS release, byte for byte.
//
// A harness that builds its "old" database with the writers of the code under test cannot see a
// change of an on-disk encoding: writer and reader change together. The bookkeeping records an
// earlier binary leaves behind are therefore kept here as literal byte strings, captured from the
// unchanged tree:
//
//	schema metadata        key [SchemaMetadata]                 value CBOR map {"CurrentVersion": uint, "LastTargetVersion": uint}
//	intermediate state i   key [SchemaIntermediateState][i]      value: the migration's resume token, raw
//	   0 block-transactions, 2 head-state: empty ("run me again")
//	   3 state-diff-length: next block to backfill, uint64 big endian
//	   1 history pruner: stager progress, restorer progress, oldest block kept, 3 x uint64 big endian
//	legacy schema version  key [DeprecatedSchemaVersion]         value uint64 big endian (number of deprecated migrations applied)
//	legacy resume token    key [DeprecatedSchemaIntermediateState] value CBOR of the token (null)
//
// goldenCommit is the commit of the repository under test (`git -C /repo rev-parse HEAD`, clean work
// tree) whose OWN writers produced every byte string below (golden_gen.sh + golden_gen_test.go; run on
// that tree they also verify the constants; verified again, unchanged, at 1fcf417 - no file under
// migration/, db/ or encoder/ differs between the two).
const goldenCommit = "83d4a69ba6eae31ecd2da01bf928a014ea8844c9"

type goldenMetaRec struct {
	cur, tgt uint64
	key, val string // hex
}

type goldenStateRec struct {
	mig      int
	vals     []uint64
	key, val string // hex
}

type goldenRawRec struct{ key, val string }

var goldenMeta = []goldenMetaRec{
	{0x0, 0x0, "29", "a26e43757272656e7456657273696f6e00714c61737454617267657456657273696f6e00"},
	{0x0, 0x1, "29", "a26e43757272656e7456657273696f6e00714c61737454617267657456657273696f6e01"},
	{0x1, 0x1, "29", "a26e43757272656e7456657273696f6e01714c61737454617267657456657273696f6e01"},
	{0x0, 0x9, "29", "a26e43757272656e7456657273696f6e00714c61737454617267657456657273696f6e09"},
	{0x1, 0x9, "29", "a26e43757272656e7456657273696f6e01714c61737454617267657456657273696f6e09"},
	{0x9, 0x9, "29", "a26e43757272656e7456657273696f6e09714c61737454617267657456657273696f6e09"},
	{0x3, 0x3, "29", "a26e43757272656e7456657273696f6e03714c61737454617267657456657273696f6e03"},
	{0x3, 0xb, "29", "a26e43757272656e7456657273696f6e03714c61737454617267657456657273696f6e0b"},
	{0x9, 0xb, "29", "a26e43757272656e7456657273696f6e09714c61737454617267657456657273696f6e0b"},
	{0xb, 0xb, "29", "a26e43757272656e7456657273696f6e0b714c61737454617267657456657273696f6e0b"},
	{0x1, 0xd, "29", "a26e43757272656e7456657273696f6e01714c61737454617267657456657273696f6e0d"},
	{0xf, 0xf, "29", "a26e43757272656e7456657273696f6e0f714c61737454617267657456657273696f6e0f"},
	{0x9, 0x19, "29", "a26e43757272656e7456657273696f6e09714c61737454617267657456657273696f6e1819"},
	{0x1f, 0x1f, "29", "a26e43757272656e7456657273696f6e181f714c61737454617267657456657273696f6e181f"},
	{0x17, 0x18, "29", "a26e43757272656e7456657273696f6e17714c61737454617267657456657273696f6e1818"},
	{0xff, 0x100, "29", "a26e43757272656e7456657273696f6e18ff714c61737454617267657456657273696f6e190100"},
	{0xffff, 0x10000, "29", "a26e43757272656e7456657273696f6e19ffff714c61737454617267657456657273696f6e1a00010000"},
	{0xffffffff, 0x100000000, "29", "a26e43757272656e7456657273696f6e1affffffff714c61737454617267657456657273696f6e1b0000000100000000"},
	{0x8000000000000000, 0x8000000000000001, "29", "a26e43757272656e7456657273696f6e1b8000000000000000714c61737454617267657456657273696f6e1b8000000000000001"},
}

var goldenState = []goldenStateRec{
	{0, []uint64(nil), "2a00", ""},
	{2, []uint64(nil), "2a02", ""},
	{3, []uint64{0x1}, "2a03", "0000000000000001"},
	{3, []uint64{0x7}, "2a03", "0000000000000007"},
	{3, []uint64{0xa}, "2a03", "000000000000000a"},
	{3, []uint64{0xff}, "2a03", "00000000000000ff"},
	{3, []uint64{0x100}, "2a03", "0000000000000100"},
	{3, []uint64{0x102030405060708}, "2a03", "0102030405060708"},
	{1, []uint64{0x6, 0x0, 0x6}, "2a01", "000000000000000600000000000000000000000000000006"},
	{1, []uint64{0x9, 0x0, 0x4}, "2a01", "000000000000000900000000000000000000000000000004"},
	{1, []uint64{0xc, 0x5, 0x5}, "2a01", "000000000000000c00000000000000050000000000000005"},
	{1, []uint64{0x102030405060708, 0x1112131415161718, 0x2122232425262728}, "2a01", "010203040506070811121314151617182122232425262728"},
}

// what a database on which every deprecated (pre-registry) migration has run holds
var goldenLegacy = []goldenRawRec{
	{"13", "0000000000000016"},
	{"17", "f6"},
}

const goldenLegacyVersion = 0x16

// ---------------------------------------------------------------------------------------------
// The released formats, written down independently of the code under test. The self-check proves
// them against the literal records above (a disagreement there is an error of the harness).

var (
	relMetaKey = []byte{0x29}
	relKeyCur  = "CurrentVersion"
	relKeyTgt  = "LastTargetVersion"
)

func relStateKey(idx int) []byte { return []byte{0x2a, byte(idx)} }

func cborUint(b []byte, v uint64) []byte {
	switch {
	case v < 24:
		return append(b, byte(v))
	case v <= 0xff:
		return append(b, 0x18, byte(v))
	case v <= 0xffff:
		return append(b, 0x19, byte(v>>8), byte(v))
	case v <= 0xffffffff:
		return append(b, 0x1a, byte(v>>24), byte(v>>16), byte(v>>8), byte(v))
	}
	return bin.BigEndian.AppendUint64(append(b, 0x1b), v)
}

func cborText(b []byte, s string) []byte {
	if len(s) >= 24 {
		panic("cborText: short strings only")
	}
	return append(append(b, 0x60|byte(len(s))), s...)
}

// relEncMeta is the schema-metadata value the released binaries write.
func relEncMeta(cur, tgt uint64) []byte {
	b := []byte{0xa2}
	b = cborUint(cborText(b, relKeyCur), cur)
	return cborUint(cborText(b, relKeyTgt), tgt)
}

func cborReadUint(b []byte) (v uint64, rest []byte, ok bool) {
	if len(b) == 0 || b[0]>>5 != 0 {
		return 0, nil, false
	}
	ai := b[0] & 0x1f
	switch {
	case ai < 24:
		return uint64(ai), b[1:], true
	case ai <= 27:
		n := 1 << (ai - 24)
		if len(b) < 1+n {
			return 0, nil, false
		}
		for _, x := range b[1 : 1+n] {
			v = v<<8 | uint64(x)
		}
		return v, b[1+n:], true
	}
	return 0, nil, false
}

// relDecMeta decodes a schema-metadata value in the released format, and nothing else.
func relDecMeta(b []byte) (cur, tgt uint64, ok bool) {
	if len(b) == 0 || b[0] != 0xa2 {
		return 0, 0, false
	}
	b = b[1:]
	seen := map[string]bool{}
	for i := 0; i < 2; i++ {
		if len(b) == 0 || b[0]>>5 != 3 || int(b[0]&0x1f) >= 24 || len(b) < 1+int(b[0]&0x1f) {
			return 0, 0, false
		}
		n := int(b[0] & 0x1f)
		k := string(b[1 : 1+n])
		v, rest, ok := cborReadUint(b[1+n:])
		if !ok || seen[k] {
			return 0, 0, false
		}
		seen[k] = true
		switch k {
		case relKeyCur:
			cur = v
		case relKeyTgt:
			tgt = v
		default:
			return 0, 0, false
		}
		b = rest
	}
	return cur, tgt, len(b) == 0
}

func be64s(vals ...uint64) []byte {
	var b []byte
	for _, v := range vals {
		b = bin.BigEndian.AppendUint64(b, v)
	}
	return b
}

// relEncState is the resume token the released migration `mig` stores for the given values.
func relEncState(mig int, vals []uint64) []byte {
	switch mig {
	case idxSDL, idxPrune:
		return be64s(vals...)
	}
	return []byte{}
}

// rawGet reads a key without any accessor of the code under test.
func rawGet(r db.KeyValueReader, key []byte) (val []byte, found bool, err error) {
	err = r.Get(key, func(v []byte) error {
		val = append([]byte{}, v...)
		return nil
	})
	if err != nil {
		if isNotFound(err) {
			return nil, false, nil
		}
		return nil, false, err
	}
	return val, true, nil
}

// ---------------------------------------------------------------------------------------------
// Decoding with the code under test

// migratorFields runs the migration's OWN Before on a resume token and reads the fields it restored
// (reflection: the fields are unexported). ok=false: the migrator no longer has these fields - the
// harness cannot look inside and says nothing.
func migratorFields(mig int, state []byte) (vals []uint64, ok bool, err error) {
	var m migration.Migration
	var names []string
	switch mig {
	case idxSDL:
		m, names = &statedifflength.Migrator{}, []string{"nextBlock"}
	case idxPrune:
		m, names = historyprunner.New(0, 0), []string{"stagerProgress", "restorerProgress", "oldestBlockKept"}
	default:
		return nil, false, nil
	}
	if err := m.Before(state); err != nil {
		return nil, true, err
	}
	v := reflect.ValueOf(m).Elem()
	for _, n := range names {
		f := v.FieldByName(n)
		if !f.IsValid() || !f.CanUint() {
			return nil, false, nil
		}
		vals = append(vals, f.Uint())
	}
	return vals, true, nil
}

func unhex(c *sim.Ctx, s string) []byte {
	b, err := hex.DecodeString(s)
	c.Must(err, "golden constant")
	return b
}

// goldenSelfCheck decodes every golden record with the code under test and compares the result with
// the values the record was made from. On the unchanged tree every record decodes to its values (a
// mismatch between the literal records and the harness's own statement of the released formats is an
// error of the harness: c.Broken). A record the code under test reads differently is exactly what
// must not happen to a database written by the previous release: the returned mismatch has the class
// old_record_misread and names the record.
func goldenSelfCheck(c *sim.Ctx) *mismatch {
	// harness vs. literals
	for _, g := range goldenMeta {
		if !bytes.Equal(unhex(c, g.key), relMetaKey) || !bytes.Equal(unhex(c, g.val), relEncMeta(g.cur, g.tgt)) {
			c.Broken("golden: the harness's released schema-metadata encoding of {%#x,%#x} is not the literal record %s", g.cur, g.tgt, g.val)
		}
		if cur, tgt, ok := relDecMeta(unhex(c, g.val)); !ok || cur != g.cur || tgt != g.tgt {
			c.Broken("golden: the harness's released schema-metadata decoder reads %s as {%#x,%#x} ok=%v", g.val, cur, tgt, ok)
		}
	}
	for _, g := range goldenState {
		if !bytes.Equal(unhex(c, g.key), relStateKey(g.mig)) || !bytes.Equal(unhex(c, g.val), relEncState(g.mig, g.vals)) {
			c.Broken("golden: the harness's released resume-token encoding of migration %d %v is not the literal record %s", g.mig, g.vals, g.val)
		}
	}
	// code under test vs. literals
	for _, g := range goldenMeta {
		d := memory.New()
		c.Must(d.Put(unhex(c, g.key), unhex(c, g.val)), "golden put")
		md, err := migration.GetSchemaMetadata(d)
		if err != nil || uint64(md.CurrentVersion) != g.cur || uint64(md.LastTargetVersion) != g.tgt {
			return &mismatch{"old_record_misread", "schema_metadata", fmt.Sprintf("the schema-metadata record %s written by the previous release (%s) for {CurrentVersion: %#b, LastTargetVersion: %#b} is read as {%#b, %#b}, err=%v",
				g.val, goldenCommit[:10], g.cur, g.tgt, uint64(md.CurrentVersion), uint64(md.LastTargetVersion), err)}
		}
	}
	for _, g := range goldenState {
		d := memory.New()
		c.Must(d.Put(unhex(c, g.key), unhex(c, g.val)), "golden put")
		st, err := migration.GetIntermediateState(d, uint8(g.mig))
		if err != nil || !bytes.Equal(st, unhex(c, g.val)) {
			return &mismatch{"old_record_misread", "intermediate_state_record", fmt.Sprintf("the resume token %s=%q of migration %d written by the previous release (%s) is read as %x, err=%v",
				g.key, g.val, g.mig, goldenCommit[:10], st, err)}
		}
		vals, ok, err := migratorFields(g.mig, st)
		if !ok {
			continue
		}
		name := map[int]string{idxSDL: "state_diff_length_checkpoint", idxPrune: "history_pruner_progress"}[g.mig]
		if err != nil || !reflect.DeepEqual(vals, g.vals) {
			return &mismatch{"old_record_misread", name, fmt.Sprintf("the resume token %s of migration %d written by the previous release (%s) for %v is restored by Before as %v, err=%v",
				g.val, g.mig, goldenCommit[:10], g.vals, vals, err)}
		}
	}
	{
		d := memory.New()
		for _, g := range goldenLegacy {
			c.Must(d.Put(unhex(c, g.key), unhex(c, g.val)), "golden put")
		}
		md, err := deprecated.SchemaMetadata(log.NewNopZapLogger(), d)
		if err != nil || md.Version != goldenLegacyVersion || md.IntermediateState != nil {
			return &mismatch{"old_record_misread", "legacy_schema_version", fmt.Sprintf("the legacy schema version / resume token records %v written by the previous release (%s) are read as version %d state %x, err=%v (want version %d, no state)",
				goldenLegacy, goldenCommit[:10], md.Version, md.IntermediateState, err, goldenLegacyVersion)}
		}
	}
	return nil
}

// ---------------------------------------------------------------------------------------------
// Golden runs

// putMeta stores the schema metadata an older binary left: through the current writer, or (golden)
// as the bytes the previous release wrote.
func putMeta(c *sim.Ctx, d *memory.Database, md migration.SchemaMetadata, golden bool) {
	if golden {
		c.Must(d.Put(relMetaKey, relEncMeta(uint64(md.CurrentVersion), uint64(md.LastTargetVersion))), "golden schema metadata")
		return
	}
	c.Must(migration.WriteSchemaMetadata(d, md), "write schema metadata")
}

// putState stores a resume token an older binary left (st: the released encoding, relEncState).
func putState(c *sim.Ctx, d *memory.Database, idx int, st []byte, golden bool) {
	if golden {
		c.Must(d.Put(relStateKey(idx), st), "golden resume token")
		return
	}
	c.Must(migration.WriteIntermediateState(d, uint8(idx), st), "write resume token")
}

// putLegacy stores the pre-registry bookkeeping of a database on which every deprecated migration ran.
func putLegacy(c *sim.Ctx, d *memory.Database) {
	for _, g := range goldenLegacy {
		c.Must(d.Put(unhex(c, g.key), unhex(c, g.val)), "golden legacy record")
	}
}

// transcodeToReleased rewrites the bookkeeping records of img into the encoding of the previous
// release, keeping what they say: as if the start that wrote them had been made by the previous
// release. What a record says is taken from the code under test itself (its reader; for a resume
// token the fields the migration's own Before restores). On the unchanged tree nothing changes.
// A record that already is in the released format, a record the code under test cannot read, and a
// resume token whose length is not the released one (a new, versioned format) are left alone.
func transcodeToReleased(c *sim.Ctx, img *memory.Database, prod bool) {
	if raw, found, err := rawGet(img, relMetaKey); err != nil {
		c.Broken("transcode: %v", err)
	} else if _, _, ok := relDecMeta(raw); !found || !ok {
		if md, err := migration.GetSchemaMetadata(img); err == nil {
			c.Must(img.Put(relMetaKey, relEncMeta(uint64(md.CurrentVersion), uint64(md.LastTargetVersion))), "transcode schema metadata")
		}
	}
	for i := 0; i < maxEntries; i++ {
		st, err := migration.GetIntermediateState(img, uint8(i))
		if err != nil {
			continue
		}
		out := st
		if prod {
			if vals, ok, err := migratorFields(i, st); ok && err == nil {
				if enc := relEncState(i, vals); len(enc) == len(st) {
					out = enc
				}
			}
		}
		if out == nil {
			out = []byte{}
		}
		if raw, found, _ := rawGet(img, relStateKey(i)); !found || !bytes.Equal(raw, out) {
			c.Must(img.Put(relStateKey(i), out), "transcode resume token")
		}
	}
}
