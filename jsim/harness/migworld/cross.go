package migworld

import (
	bin "encoding/binary"
	"errors"
	"fmt"
	"regexp"
	"strings"
	"time"

	"github.com/NethermindEth/juno/blockchain"
	"github.com/NethermindEth/juno/core"
	"github.com/NethermindEth/juno/db/memory"
	"github.com/NethermindEth/juno/migration"
	"github.com/NethermindEth/juno/migration/blocktransactions/txlayout"
	"github.com/NethermindEth/juno/pruner"

	"jsim/harness/node"
	"jsim/sim"
)

// Class cross/history: CROSS-MIGRATION histories over the real registry.
//
// One database life is a sequence of starts with DIFFERENT configurations: start 1 is interrupted
// (graceful cancellation, crash after a commit, failing commit, transient read error) inside some
// migration X and leaves intermediate state; the next start enables another optional migration
// (history pruning, head state, the harness's auxiliary one), or changes the pruner's retention /
// min-age / the L1 head, so that a lower-index or other migration runs first and changes the database
// the resumed X depends on; any number of such starts; then fault-free starts until the upgrade is
// complete. Every pair (interrupted migration, migration newly enabled on a later start) the registry
// allows is reachable; the draws are biased to (1) an interruption in state-diff-length /
// block-transactions / head-state followed by pruning newly enabled with a floor above the stored
// checkpoint, (2) an interruption in the history pruner followed by an attempt to disable pruning
// and by changed retention inputs.
//
// Oracle - the existing ones, nothing new: every start is judged by the runner's bookkeeping model
// (checkStart); a start that suffered no fault, under a configuration that does not drop anything the
// database has opted into, is neither refused nor fails; dropping an opted-in flag is refused and
// leaves the database untouched; after the final start every RETAINED block equals the generated
// content through all accessors, blocks below the cutoff (documented cutoff of the inputs in force
// when the pruner first became durable) fail or return what was stored, the bookkeeping is that of a
// completed upgrade; one more start runs nothing.
//
// Determinism: what a cancelled start still commits is decided by Go's select (see cancelClass), so
// the database after a cancelled start is not a function of the tape. Therefore every later fault is
// named by CONTENT (the ord-th operation / commit / read issued while migration X executes, bounds
// taken from the deterministic uninterrupted run), and only the choices are part of the trace, never
// what a start did with them.

// xCfg is the configuration of one start.
type xCfg struct {
	prune, newState, aux bool
	in                   pIn // retained blocks, L1 head, cutoff instant (consulted by the pruner only)
}

func (x xCfg) String() string {
	return fmt.Sprintf("{prune=%v new-state=%v aux=%v inputs=%s}", x.prune, x.newState, x.aux, x.in)
}

func (x xCfg) bits() string { return fmt.Sprintf("%v/%v/%v", x.prune, x.newState, x.aux) }

type xCase struct {
	e    *env
	c    *sim.Ctx
	pc   *pruneCase // chain, successor block, model checks of pruned databases
	w    *world
	seed uint64
	// this run's universe of optional flags besides prune-mode
	univNewState, univAux bool
	refs                  map[string]*memory.Database
	opsOf, commitsOf      map[int]int // per migration (-1: the runner), from the uninterrupted run with every flag of the universe on
	readsOf               map[int]int
}

// xsession is one database life.
type xsession struct {
	xc        *xCase
	img       *memory.Database
	cfg       xCfg
	l1Set     bool
	effective *pIn // pruner inputs in force when the pruner first became durable
}

func (s *xsession) configure(cfg xCfg) {
	if len(s.xc.w.chain) > 0 && (!s.l1Set || cfg.in.l1 != s.cfg.in.l1) {
		s.xc.pc.setL1(s.img, cfg.in.l1)
		s.l1Set = true
	}
	s.cfg = cfg
}

func (xc *xCase) flagsOf(cfg xCfg) flags {
	f := flags{entries: nProd + 1, prune: cfg.prune, newState: cfg.newState, aux: cfg.aux, retained: cfg.in.R}
	if cfg.in.cut != 0 {
		// the migrator only evaluates time.Now().Add(-minAge): place that instant (see prune.go)
		f.minAge = time.Since(time.Unix(cfg.in.cut, 0))
	}
	return f
}

func (xc *xCase) binary(cfg xCfg) binary {
	f := xc.flagsOf(cfg)
	return binary{
		prod: true,
		desc: f.String(), target: f.target(), nEntries: f.entries,
		build: func(rl *runLog, cancel func()) *migration.Registry {
			return prodRegistry(xc.e, f, rl, &toy{id: idxAux, units: 2, cancel: cancel, executed: map[outcome]int{}})
		},
	}
}

// start runs one binary start with the session's configuration and tracks when the pruner first
// becomes durable. After a crash (inject.crashIn fired) the session continues on the crash image.
func (s *xsession) start(in inject) (*startRes, binary) {
	b := s.xc.binary(s.cfg)
	r := s.xc.e.start(s.img, b, in)
	s.xc.c.Evals++
	pruneCommits, post := r.migCommits[idxPrune], r.post
	if r.crashImg != nil {
		s.img = r.crashImg
		pruneCommits, post = r.crashPruneCommits, readMeta(s.xc.c, s.img)
	}
	if s.effective == nil && s.cfg.prune && (pruneCommits > 0 || (post.CurrentVersion.Has(idxPrune) && !r.pre.CurrentVersion.Has(idxPrune))) {
		eff := s.cfg.in
		s.effective = &eff
	}
	return r, b
}

const (
	xfCancel = iota
	xfCrash
	xfCommitErr
	xfReadErr
	xfNone
)

var xfName = [...]string{"cancel", "crash", "commit_error", "read_error", "none"}

func runCross(e *env) {
	c, t := e.c, e.c.T
	xc := &xCase{e: e, c: c, refs: map[string]*memory.Database{}}
	w := &world{c: c, sdlCkpt: -1}
	pc := &pruneCase{e: e, c: c, w: w, refs: map[pIn]*memory.Database{}, refOps: map[pIn][2]int{}}
	xc.pc, xc.w = pc, w
	n := []int{12, 20, 11, 25, 5, 21, 30, 9, 2, 40}[t.Draw("blocks", 10)]
	lay := []layout{layoutNewTx, layoutOldTx, layoutNewTx, layoutPartTx}[t.Draw("layout", 4)]
	// blocks without transactions are left to the other classes: a resumed block-transactions migration
	// does not convert them (recorded finding), which would end most histories of this class early
	pc.needTx = lay != layoutNewTx
	pc.buildPruneChain(n)
	w.lay = lay
	if lay == layoutPartTx {
		if n <= batchSize {
			w.lay = layoutOldTx
		} else {
			w.pre = batchSize * (1 + t.Draw("pre.batches", (n-1)/batchSize))
		}
	}
	switch w.lay {
	case layoutOldTx:
		w.meta = []metaVariant{metaAbsent, metaZero, metaStarted}[t.Draw("meta", 3)]
	case layoutPartTx:
		w.meta = metaStarted
	default:
		w.meta = metaExact
	}
	w.golden = t.Chance("golden", 1, 2)
	e.golden = w.golden
	if e.golden {
		c.Probe("golden_records")
	}
	xc.univNewState = t.Chance("universe.newstate", 1, 3)
	xc.univAux = t.Chance("universe.aux", 1, 4)
	xc.buildBase()
	xc.seed = t.U64("sched.seed")
	if t.Chance("sched.simple", 1, 4) {
		xc.seed = 0
	}
	nTx := 0
	for _, b := range w.chain {
		nTx += len(b.B.Transactions)
	}
	// the uninterrupted upgrade with every flag of the universe on: sanity of the world, bounds of the
	// content-named faults
	all := xCfg{prune: true, newState: xc.univNewState, aux: xc.univAux, in: xc.drawInputs("in0", nil, 0)}
	c.Sample = map[string]any{"class": className[clCross], "blocks": n, "txs": nTx, "layout": w.lay.String(), "converted_prefix": w.pre, "meta_variant": int(w.meta),
		"golden_records": w.golden, "universe": all.String()}
	c.Logf("cross world: %d blocks %d txs layout=%s pre=%d meta=%d golden=%v universe=%s", n, nTx, w.lay, w.pre, w.meta, w.golden, all)
	var refRes *startRes
	xc.reference(all, &all.in, true, &refRes)
	xc.opsOf, xc.commitsOf, xc.readsOf = map[int]int{}, map[int]int{}, map[int]int{}
	for _, m := range refRes.opMig {
		xc.opsOf[m]++
	}
	for m, k := range refRes.migCommits {
		xc.commitsOf[m] = k
		xc.readsOf[m] = xc.opsOf[m] - k
	}

	nHist := 2 + t.Draw("histories", 3)
	if c.Tier == "thorough" {
		nHist *= 3
	}
	good := 0
	for h := 0; h < nHist; h++ {
		if xc.history(h, all) {
			good++
		}
	}
	c.Nontrivial = good >= 2 && nTx > 0
}

// buildBase stores the chain through the real Blockchain (legacy state, current layout), removes the
// state-diff lengths, rewrites the transactions into the previous layout and leaves the bookkeeping
// of the older binary.
func (xc *xCase) buildBase() {
	c, w := xc.c, xc.w
	st := node.NewStore(c, false)
	nd := node.OpenNode(c, st, false, "seed")
	for _, b := range w.chain {
		c.Must(nd.StoreBlock(b), fmt.Sprintf("store block %d", b.B.Number))
	}
	mem, ok := nd.FDB.Inner.(*memory.Database)
	if !ok {
		c.Broken("node store is not the memory backend")
	}
	for _, b := range w.chain {
		cm, err := core.GetBlockCommitmentByBlockNum(mem, b.B.Number)
		c.Must(err, "read commitments")
		cm.StateDiffLength = 0
		c.Must(core.WriteBlockCommitment(mem, b.B.Number, cm), "rewrite commitments")
	}
	var applied, target migration.SchemaVersion
	write := true
	switch w.lay {
	case layoutOldTx, layoutPartTx:
		for _, b := range w.chain {
			if w.lay == layoutPartTx && int(b.B.Number) < w.pre {
				continue
			}
			c.Must(core.BlockTransactionsBucket.Delete(mem, b.B.Number), "drop combined entry")
			c.Must(txlayout.TransactionLayoutPerTx.WriteTransactionsAndReceipts(mem, b.B.Number, b.B.Transactions, b.B.Receipts), "write per-tx layout")
		}
		switch w.meta {
		case metaAbsent:
			write = false
		case metaStarted:
			target.Set(idxBlockTx)
		}
		if w.lay == layoutPartTx {
			target.Set(idxBlockTx)
			putState(c, mem, idxBlockTx, relEncState(idxBlockTx, nil), w.golden)
		}
	default:
		applied.Set(idxBlockTx)
		target = applied
	}
	if write {
		md := migration.SchemaMetadata{CurrentVersion: applied, LastTargetVersion: target}
		putMeta(c, mem, md, w.golden)
		w.baseMD = &md
	}
	if w.golden {
		putLegacy(c, mem)
	}
	w.base, xc.pc.base = mem, mem
}

// drawInputs draws pruner inputs; the L1 head never moves down (prev); small > 0 biases to a cutoff
// close to the head (few retained blocks, L1 head near the chain head, min-age off).
func (xc *xCase) drawInputs(label string, prev *pIn, small int) pIn {
	t, n := xc.c.T, len(xc.w.chain)
	in := pIn{R: retainSizes[t.Draw(label+".retained", len(retainSizes))]}
	if small > 0 {
		in.R = []uint64{0, 1, 5}[t.Draw(label+".retained.small", 3)]
	}
	if n > 0 {
		in.l1 = uint64(n - 1 - t.Draw(label+".l1.back", min(n, 4)))
		if small == 0 && t.Chance(label+".l1.any", 1, 4) {
			in.l1 = uint64(t.Draw(label+".l1", n))
		}
		if prev != nil && in.l1 < prev.l1 {
			in.l1 = prev.l1
		}
		if small == 0 && t.Chance(label+".minage.on", 1, 3) {
			k := t.Draw(label+".minage.block", n)
			in.cut = int64(xc.w.chain[k].B.Timestamp) + int64(t.Draw(label+".minage.plus", 2))
		}
	}
	return in
}

func refKey(cfg xCfg, eff *pIn) string {
	k := cfg.bits()
	if cfg.prune && eff != nil {
		k += fmt.Sprintf("|%d/%d/%d", eff.R, eff.l1, eff.cut)
	}
	return k
}

// reference: the uninterrupted upgrade of the base under the final flags with the given pruner inputs,
// checked against the model; cached.
func (xc *xCase) reference(cfg xCfg, eff *pIn, logOps bool, out **startRes) *memory.Database {
	key := refKey(cfg, eff)
	if img, ok := xc.refs[key]; ok && out == nil {
		return img
	}
	c := xc.c
	rcfg := cfg
	if cfg.prune {
		rcfg.in = *eff
	}
	s := &xsession{xc: xc, img: xc.w.base.Copy()}
	s.configure(rcfg)
	tag := "xref"
	if !logOps {
		tag = "xref'"
	}
	r, b := s.start(inject{schedSeed: xc.seed, logOps: logOps, tag: tag})
	if out != nil {
		*out = r
	}
	if r.refused != nil {
		c.Fail("cannot_finish", "refused_on_previous_layout", "a binary with flags %s refuses the previous-layout database: %v", b.desc, r.refused)
	}
	if r.runErr != nil {
		c.Fail("cannot_finish", "uninterrupted_run_failed", "uninterrupted upgrade of a %s database with configuration %s failed: %s", xc.w.lay, rcfg, stableErr(r.runErr))
	}
	if m := checkStart(r, b, true); m != nil {
		failM(c, m, "uninterrupted run")
	}
	xc.w.judgingUninterrupted = true
	xc.checkModel(s.img, rcfg, s.effective, b, "uninterrupted run with configuration "+rcfg.String(), "")
	xc.w.judgingUninterrupted = false
	xc.refs[key] = s.img
	return s.img
}

var migOfErr = regexp.MustCompile(`running migration at index (\d+)`)

// errSite names the migration a runner error comes from (stable part of the violation key).
func errSite(err error) string {
	if m := migOfErr.FindStringSubmatch(err.Error()); m != nil {
		return "_in_migration_" + m[1]
	}
	return ""
}

// history runs one database life; it reports whether a fault fired and a later start ran under another
// configuration.
func (xc *xCase) history(h int, all xCfg) bool {
	c, t, w := xc.c, xc.c.T, xc.w
	s := &xsession{xc: xc, img: w.base.Copy()}
	scen := t.Draw("x.scenario", 4)
	nInt := 1 + t.Draw("x.starts", 3) // interrupted starts
	var prev *xCfg
	fired, firedThenChanged := false, false
	what := fmt.Sprintf("history %d:", h)
	for i := 0; i < nInt; i++ {
		cfg, kind, tgt := xc.drawStart(scen, i, prev, all)
		if prev != nil && (t.Chance("x.optout", 1, 3) || scen == 2) {
			xc.optOut(s, *prev, fmt.Sprintf("%s before start %d", what, i+1), scen == 2)
		}
		changed := prev != nil && *prev != cfg
		s.configure(cfg)
		in := inject{schedSeed: mix(xc.seed, uint64(h), uint64(i)), tag: fmt.Sprintf("h%d.%d", h, i)}
		if h == 0 && i == 0 {
			in.schedSeed = xc.seed
		}
		var rt readTarget
		switch kind {
		case xfCancel:
			in.cancelIn = &tgt
		case xfCrash:
			in.crashIn = &tgt
		case xfCommitErr:
			in.failIn = &tgt
		case xfReadErr:
			rt = readTarget{byMig: true, mig: tgt.mig, ord: tgt.ord, mode: t.Draw("x.read.mode", nReadModes), nth: t.Draw("x.read.nth", 3)}
			in.readErr = &rt
		}
		c.Logf("history %d start %d: configuration %s, %s at %s", h, i+1, cfg, xfName[kind], &tgt)
		r, b := s.start(in)
		xc.scenarioProbes(s, r, prev)
		what += fmt.Sprintf(" start %d %s %s at %s;", i+1, cfg, xfName[kind], &tgt)
		if fired && changed {
			firedThenChanged = true
		}
		if xc.judgeInterrupted(r, b, kind, what, i == 0) {
			fired = true
			c.Probe(fmt.Sprintf("cross_%s_in_migration_%d", xfName[kind], tgt.mig))
			if changed {
				c.Fault("configuration_changed_between_starts")
			}
		}
		if i > 0 {
			c.Fault("restart")
		}
		p := cfg
		prev = &p
	}
	// the final configuration: nothing dropped, possibly more switched on, pruner inputs possibly changed
	fin := xc.growCfg("x.final", *prev, all, scen)
	if t.Chance("x.optout.final", 1, 4) || (scen == 2 && nInt == 1) {
		xc.optOut(s, *prev, what+" before the final start", scen == 2)
	}
	if fired && fin != *prev {
		firedThenChanged = true
		c.Fault("configuration_changed_between_starts")
	}
	s.configure(fin)
	c.Logf("history %d final start: configuration %s", h, fin)
	what += fmt.Sprintf(" final start %s", fin)
	r, b := s.start(inject{schedSeed: mix(xc.seed, uint64(h), 99), tag: fmt.Sprintf("h%d.final", h)})
	xc.scenarioProbes(s, r, prev)
	c.Fault("restart")
	if r.capped {
		c.Inconclusive++
		return false
	}
	if r.refused != nil {
		c.Fail("cannot_finish", "restart_refused_after_cross_history", "%s: the binary is refused although it drops nothing the database has opted into: %v", what, r.refused)
	}
	if r.runErr != nil {
		c.Fail("cannot_finish", "restart_fails_after_cross_history"+errSite(r.runErr), "%s: the fault-free start fails: %s", what, stableErr(r.runErr))
	}
	if m := checkStart(r, b, true); m != nil {
		m.key += "_after_cross_history"
		failM(c, m, what)
	}
	if fin.prune && s.effective == nil {
		c.Broken("%s: completed but the pruner never became durable", what)
	}
	// the completed database
	want := xc.reference(fin, s.effective, false, nil)
	if d := imageDiff(c, stripL1(s.img), stripL1(want)); d != nil {
		// the model decides (same final database as WHICH uninterrupted run is not defined by the property
		// once the configuration changed on the way)
		c.Probe("cross_final_image_differs_from_reference")
		xc.checkModel(s.img, fin, s.effective, b, what, "cross_history")
	} else {
		c.Probe("cross_final_image_equals_reference")
	}
	// one more start has nothing to do
	r2, b2 := s.start(inject{schedSeed: 0, tag: fmt.Sprintf("h%d.idle", h)})
	if r2.refused != nil || r2.runErr != nil {
		c.Fail("cannot_finish", "completed_database_not_reopened_after_cross_history", "%s: the next start of the same binary on the completed database: refused=%v err=%v", what, r2.refused, r2.runErr)
	}
	if m := checkStart(r2, b2, true); m != nil {
		m.key += "_after_cross_history"
		failM(c, m, what+", next start")
	}
	for _, k := range r2.rl.calls {
		if !k.before {
			c.Fail("order", "migration_run_again_on_completed_database_after_cross_history", "%s: the next start on the completed database called Migrate(%d)", what, k.idx)
		}
	}
	if firedThenChanged {
		c.Probe("cross_interrupted_then_other_configuration")
	}
	return firedThenChanged
}

// scenarioProbes counts the cross-migration situations the class is biased to, from what the start found
// and left (probes are not part of the trace).
func (xc *xCase) scenarioProbes(s *xsession, r *startRes, prev *xCfg) {
	c := xc.c
	if r.refused != nil {
		return
	}
	post := r.post
	if r.crashImg != nil {
		post = readMeta(c, s.img)
	}
	pruneNew := !r.pre.CurrentVersion.Has(idxPrune) && post.CurrentVersion.Has(idxPrune)
	if st, ok := r.preStates[idxSDL]; ok && len(st) == 8 && pruneNew && s.effective != nil {
		if f, prune := refFloor(xc.w.chain, *s.effective); prune && bin.BigEndian.Uint64(st) < f {
			c.Probe("cross_sdl_checkpoint_below_new_prune_floor")
		}
	}
	if _, ok := r.preStates[idxBlockTx]; ok && pruneNew {
		c.Probe("cross_blocktx_token_then_pruning_enabled")
	}
	if _, ok := r.preStates[idxNewState]; ok && pruneNew {
		c.Probe("cross_headstate_token_then_pruning_enabled")
	}
	if _, ok := r.preStates[idxPrune]; ok && prev != nil && prev.prune && prev.in != s.cfg.in {
		c.Probe("cross_prune_token_then_inputs_changed")
	}
	if _, ok := r.preStates[idxSDL]; ok && prev != nil && !prev.newState && s.cfg.newState {
		c.Probe("cross_sdl_token_then_new_state_enabled")
	}
}

// growCfg: a configuration that drops nothing of prev.
func (xc *xCase) growCfg(label string, prev, all xCfg, scen int) xCfg {
	t := xc.c.T
	cfg := prev
	if !cfg.prune && t.Chance(label+".prune", 1, 2) {
		cfg.prune = true
	}
	if all.newState && !cfg.newState && t.Chance(label+".newstate", 1, 3) {
		cfg.newState = true
	}
	if all.aux && !cfg.aux && t.Chance(label+".aux", 1, 3) {
		cfg.aux = true
	}
	if t.Chance(label+".inputs", 1, 2) {
		cfg.in = xc.drawInputs(label+".in", &prev.in, 0)
	}
	return cfg
}

// drawStart draws the configuration and the fault of interrupted start i.
func (xc *xCase) drawStart(scen, i int, prev *xCfg, all xCfg) (cfg xCfg, kind int, tgt opTarget) {
	t := xc.c.T
	label := fmt.Sprintf("x%d", i)
	pendingBlockTx := xc.w.lay != layoutNewTx
	var cands []int
	switch {
	case scen <= 1 && i == 0:
		// (1) no pruning yet; interrupted inside state-diff-length / block-transactions / head-state
		cfg = xCfg{newState: all.newState && t.Chance(label+".newstate", 1, 2), aux: all.aux && t.Chance(label+".aux", 1, 2), in: xc.drawInputs(label+".in", nil, 0)}
		cands = []int{idxSDL, idxSDL}
		if pendingBlockTx {
			cands = append(cands, idxBlockTx)
		}
		if cfg.newState {
			cands = append(cands, idxNewState)
		}
		kind = []int{xfCancel, xfCancel, xfCancel, xfCrash, xfCommitErr, xfReadErr}[t.Draw(label+".fault", 6)]
	case scen <= 1 && i == 1:
		// ... then pruning newly enabled with a cutoff close to the head
		cfg = *prev
		cfg.prune = true
		cfg.in = xc.drawInputs(label+".in", &prev.in, 1)
		cands = []int{idxPrune, idxPrune, idxSDL, -1}
		kind = []int{xfCancel, xfCrash, xfCrash, xfCommitErr, xfReadErr, xfNone}[t.Draw(label+".fault", 6)]
	case scen == 2 && i == 0:
		// (2) interrupted inside the history pruner
		cfg = xCfg{prune: true, newState: all.newState && t.Chance(label+".newstate", 1, 2), aux: all.aux && t.Chance(label+".aux", 1, 2), in: xc.drawInputs(label+".in", nil, 0)}
		cands = []int{idxPrune}
		kind = []int{xfCancel, xfCancel, xfCrash, xfCrash, xfCommitErr, xfReadErr}[t.Draw(label+".fault", 6)]
	default:
		if prev == nil {
			cfg = xCfg{prune: t.Chance(label+".prune", 1, 2), newState: all.newState && t.Chance(label+".newstate", 1, 2), aux: all.aux && t.Chance(label+".aux", 1, 2), in: xc.drawInputs(label+".in", nil, 0)}
		} else {
			cfg = xc.growCfg(label, *prev, all, scen)
		}
		cands = []int{idxSDL, -1}
		if pendingBlockTx {
			cands = append(cands, idxBlockTx)
		}
		if cfg.prune {
			cands = append(cands, idxPrune, idxPrune)
		}
		if cfg.newState {
			cands = append(cands, idxNewState)
		}
		if cfg.aux {
			cands = append(cands, idxAux)
		}
		kind = []int{xfCancel, xfCancel, xfCrash, xfCrash, xfCommitErr, xfReadErr}[t.Draw(label+".fault", 6)]
	}
	tgt.mig = cands[t.Draw(label+".mig", len(cands))]
	if tgt.mig == -1 && (kind == xfCancel || kind == xfReadErr) {
		kind = xfCrash // the runner's own operations: the bookkeeping commits (a crash right after one of them)
	}
	bound := 0
	switch kind {
	case xfCrash, xfCommitErr:
		tgt.commits = true
		bound = xc.commitsOf[tgt.mig]
	case xfReadErr:
		bound = xc.readsOf[tgt.mig]
	default:
		bound = xc.opsOf[tgt.mig]
	}
	if bound <= 0 {
		bound = 4
	}
	tgt.ord = t.Draw(label+".ord", bound)
	if t.Chance(label+".early", 1, 3) {
		tgt.ord = t.Draw(label+".ord.early", min(bound, 4))
	}
	return cfg, kind, tgt
}

// judgeInterrupted: the oracle of a start of a history; it reports whether the fault fired.
func (xc *xCase) judgeInterrupted(r *startRes, b binary, kind int, what string, first bool) bool {
	c := xc.c
	if r.capped {
		c.Inconclusive++
		return false
	}
	if r.refused != nil {
		key := "restart_refused_after_cross_history"
		if first {
			key = "refused_on_previous_layout"
		}
		c.Fail("cannot_finish", key, "%s: the binary is refused although it drops nothing the database has opted into: %v", what, r.refused)
	}
	firedFault := false
	switch kind {
	case xfCancel:
		firedFault = r.cancelFired
	case xfCrash:
		firedFault = r.crashImg != nil
	case xfCommitErr:
		firedFault = r.failFired
	case xfReadErr:
		firedFault = r.readFired
	}
	if !firedFault {
		// the targeted operation never happened: a healthy start
		if r.runErr != nil {
			c.Fail("cannot_finish", "restart_fails_after_cross_history"+errSite(r.runErr), "%s: the start, which suffered no fault, fails: %s", what, stableErr(r.runErr))
		}
		if m := checkStart(r, b, true); m != nil {
			m.key += "_after_cross_history"
			failM(c, m, what)
		}
		return false
	}
	switch kind {
	case xfCancel:
		c.Fault("ctx_cancel_at_op")
		c.Probe("cancel_at_" + r.cancelStage)
		if m := checkStart(r, b, false); m != nil {
			m.key += "_after_cross_history"
			failM(c, m, what)
		}
		if r.runErr != nil && (r.ctxErrAtEnd == nil || !errors.Is(r.runErr, r.ctxErrAtEnd)) {
			c.Fail("cannot_finish", "cancelled_run_reports_other_error"+errSite(r.runErr), "%s: the cancelled start returned an error that is not the cancellation: %s", what, stableErr(r.runErr))
		}
	case xfCrash:
		// the process died: nothing of this start is judged; the next start finds the crash image
		c.Fault("crash_after_commit")
	case xfCommitErr:
		c.Fault("commit_error")
		if m := checkStart(r, b, false); m != nil {
			m.key += "_after_cross_history"
			failM(c, m, what)
		}
		if r.runErr == nil && r.post.CurrentVersion.Contains(b.target) {
			c.Fail("bookkeeping", "failed_commit_reported_as_success", "%s: a commit failed but the run reported a completed upgrade", what)
		}
	case xfReadErr:
		c.Fault("read_error")
		errd := r.runErr != nil
		if m := checkStart(r, b, !errd); m != nil {
			m.key += "_after_cross_history"
			failM(c, m, what)
		}
	}
	return true
}

// optOut: a binary that drops an optional flag the database has applied or opted into is refused and
// leaves the database untouched. Which flags the database holds is read from it (a crashed start may
// have died before recording its target): without a recorded flag nothing is judged.
func (xc *xCase) optOut(s *xsession, prev xCfg, what string, pruneFirst bool) {
	c, t := xc.c, xc.c.T
	drop := t.Draw("x.optout.flag", 3)
	if pruneFirst && prev.prune {
		drop = 0
	}
	cfg := prev
	bit := 0
	switch drop {
	case 0:
		cfg.prune, bit = false, idxPrune
	case 1:
		cfg.newState, bit = false, idxNewState
	default:
		cfg.aux, bit = false, idxAux
	}
	if cfg == prev {
		return
	}
	if xc.e.golden {
		transcodeToReleased(c, s.img, true)
	}
	md := readMeta(c, s.img)
	if !md.CurrentVersion.Has(uint8(bit)) && !md.LastTargetVersion.Has(uint8(bit)) {
		return
	}
	if _, ok := readStates(c, s.img, maxEntries)[idxPrune]; ok && bit == idxPrune {
		c.Probe("cross_prune_token_then_pruning_disabled")
	}
	cp := s.img.Copy()
	b := xc.binary(cfg)
	r := xc.e.start(cp, b, inject{tag: "optout", transcoded: true})
	c.Evals++
	c.Fault("downgrade_binary")
	c.Logf("%s: a binary without flag %d tried", strings.SplitN(what, ":", 2)[0], bit)
	if r.refused == nil {
		kind := "opted_in_optional_disabled"
		if md.CurrentVersion.Has(uint8(bit)) {
			kind = "applied_migration_missing"
		}
		c.Fail("downgrade_not_refused", kind, "%s (applied=%b last target=%b): a binary with %s (target=%b) was not refused", what, md.CurrentVersion, md.LastTargetVersion, b.desc, b.target)
	}
	if d := imageDiff(c, cp, s.img); d != nil {
		c.Fail("downgrade_not_refused", "refused_open_modified_database", "%s: refused binary %s modified the database: %s", what, b.desc, *d)
	}
	c.Probe("downgrade_refused")
	c.Probe("cross_optout_refused")
}

// checkModel: the model checks of a completed upgrade under the final flags cfg; eff are the pruner
// inputs in force when the pruner first became durable (nil: pruning is not part of cfg).
func (xc *xCase) checkModel(img *memory.Database, cfg xCfg, eff *pIn, b binary, what, kind string) {
	c, w, pc := xc.c, xc.w, xc.pc
	suffix := ""
	if kind != "" {
		suffix = "_after_" + kind
	}
	fail := func(m *mismatch) {
		m.key += suffix
		failM(c, m, what)
	}
	if m := checkFinished(img, b.target, true); m != nil {
		fail(m)
	}
	var floor uint64
	prune := false
	if cfg.prune {
		if eff == nil {
			c.Broken("%s: pruning is part of the configuration but the pruner never became durable", what)
		}
		floor, prune = refFloor(w.chain, *eff)
	}
	oldest, err := pruner.OldestRetainedBlock(img)
	switch {
	case len(w.chain) == 0:
		if !isNotFound(err) {
			fail(&mismatch{"prune_cutoff_moved", "empty_chain_has_retained_block", fmt.Sprintf("OldestRetainedBlock on an empty chain: %d, %v", oldest, err)})
		}
	case err != nil:
		fail(&mismatch{"prune_cutoff_moved", "oldest_retained_unreadable", fmt.Sprintf("OldestRetainedBlock: %v", err)})
	case oldest != floor:
		dir := "up"
		if oldest < floor {
			dir = "down"
		}
		fail(&mismatch{"prune_cutoff_moved", dir, fmt.Sprintf("oldest retained block is %d; documented cutoff %d (pruning configured=%v, inputs in force when the pruner first committed: %v, prunes=%v)", oldest, floor, cfg.prune, eff, prune)})
	}
	open := func(d *memory.Database) *blockchain.Blockchain {
		if cfg.prune {
			return pc.openBC(d)
		}
		return blockchain.New(d, w.net)
	}
	k := &imgChecker{w: w, img: img, bc: open(img)}
	res := func() (res *mismatch) {
		defer func() {
			if r := recover(); r != nil {
				sf, ok := r.(softFail)
				if !ok {
					panic(r)
				}
				res = &sf.m
			}
		}()
		h, err := k.bc.Height()
		if len(w.chain) == 0 {
			k.wantNotFound("Height(empty chain)", err)
		} else {
			k.eq("Height", uint64(len(w.chain)-1), h, err)
		}
		for i, blk := range w.chain {
			if uint64(i) >= floor {
				k.checkBlock(blk, true)
				k.checkByHash(blk)
			} else {
				k.checkPrunedBlock(blk)
			}
		}
		if cfg.newState {
			return nil // the head-state migration has moved the contract records: state reads are C16's / the state properties' business
		}
		for i := range w.chain {
			switch {
			case uint64(i)+1 >= floor:
				if uint64(i)+1 == floor || uint64(i) == floor || i == len(w.chain)-1 || i%7 == 3 {
					pc.checkStateAt(k, i, true)
				}
			case i%5 == 0 || uint64(i)+2 == floor:
				pc.checkStateAt(k, i, false)
			}
		}
		pc.checkHeadRoot(k)
		return nil
	}()
	c.Evals += k.evals
	if res != nil {
		fail(res)
	}
	if pc.next != nil && !cfg.newState {
		cp := img.Copy()
		bc := open(cp)
		blk, su := node.CloneBlock(pc.next.B), node.CloneStateUpdate(pc.next.SU)
		comm, err := bc.SanityCheckNewHeight(blk, su, pc.next.Classes)
		if err == nil {
			err = bc.Store(blk, comm, su, pc.next.Classes)
		}
		c.Evals++
		if err != nil {
			fail(&mismatch{"prune_next_block_rejected", "store_failed", fmt.Sprintf("storing the next block %d on the upgraded database failed: %v", pc.next.B.Number, err)})
		}
	}
}
