package migworld

import "syscall"

// wallNow reads the real clock (the bubble's time.Now is fake); developer aid only.
func wallNow() int64 {
	var tv syscall.Timeval
	_ = syscall.Gettimeofday(&tv)
	return tv.Sec*1e9 + int64(tv.Usec)*1e3
}
