package migworld

import (
	"fmt"
	"reflect"
	"sort"
	"strings"

	"github.com/NethermindEth/juno/core/felt"
)

// canon renders a value structurally and deterministically. nil and empty slices/maps render the
// same (no hash of the protocol distinguishes them); nil pointers render as "nil" and stay distinct
// from pointers to zero values (hashes do distinguish those, e.g. an absent nonce). Unexported
// fields are included (bloom filter bits, big.Int words).
func canon(x any) string {
	var sb strings.Builder
	canonV(&sb, reflect.ValueOf(x))
	return sb.String()
}

var feltType = reflect.TypeOf(felt.Felt{})

func canonV(sb *strings.Builder, v reflect.Value) {
	if !v.IsValid() {
		sb.WriteString("nil")
		return
	}
	if v.Type().ConvertibleTo(feltType) && v.Kind() == reflect.Array && v.Len() == 4 && v.Type().Elem().Kind() == reflect.Uint64 {
		// felts (and the named felt types) print in canonical hex, not Montgomery words
		var f felt.Felt
		for i := 0; i < 4; i++ {
			f[i] = v.Index(i).Uint()
		}
		sb.WriteString(f.String())
		return
	}
	switch v.Kind() {
	case reflect.Ptr, reflect.Interface:
		if v.IsNil() {
			sb.WriteString("nil")
			return
		}
		if v.Kind() == reflect.Interface {
			sb.WriteString(v.Elem().Type().String())
			sb.WriteByte(':')
		} else {
			sb.WriteByte('&')
		}
		canonV(sb, v.Elem())
	case reflect.Slice, reflect.Array:
		if v.Kind() == reflect.Slice && v.Type().Elem().Kind() == reflect.Uint8 {
			fmt.Fprintf(sb, "b%x", v.Bytes())
			return
		}
		sb.WriteByte('[')
		for i := 0; i < v.Len(); i++ {
			if i > 0 {
				sb.WriteByte(',')
			}
			canonV(sb, v.Index(i))
		}
		sb.WriteByte(']')
	case reflect.Map:
		type kvs struct{ k, v string }
		items := make([]kvs, 0, v.Len())
		it := v.MapRange()
		for it.Next() {
			var kb, vb strings.Builder
			canonV(&kb, it.Key())
			canonV(&vb, it.Value())
			items = append(items, kvs{kb.String(), vb.String()})
		}
		sort.Slice(items, func(i, j int) bool { return items[i].k < items[j].k })
		sb.WriteByte('{')
		for i, it := range items {
			if i > 0 {
				sb.WriteByte(',')
			}
			sb.WriteString(it.k)
			sb.WriteByte(':')
			sb.WriteString(it.v)
		}
		sb.WriteByte('}')
	case reflect.Struct:
		sb.WriteString(v.Type().Name())
		sb.WriteByte('{')
		for i := 0; i < v.NumField(); i++ {
			if v.Type().Field(i).Name == "_" {
				continue
			}
			if i > 0 {
				sb.WriteByte(',')
			}
			sb.WriteString(v.Type().Field(i).Name)
			sb.WriteByte('=')
			canonV(sb, v.Field(i))
		}
		sb.WriteByte('}')
	case reflect.String:
		fmt.Fprintf(sb, "%q", v.String())
	case reflect.Bool:
		fmt.Fprintf(sb, "%v", v.Bool())
	case reflect.Int, reflect.Int8, reflect.Int16, reflect.Int32, reflect.Int64:
		fmt.Fprintf(sb, "%d", v.Int())
	case reflect.Uint, reflect.Uint8, reflect.Uint16, reflect.Uint32, reflect.Uint64, reflect.Uintptr:
		fmt.Fprintf(sb, "%d", v.Uint())
	case reflect.Func:
		sb.WriteString("func")
	default:
		fmt.Fprintf(sb, "?%s", v.Kind())
	}
}

// firstDiff points at the first differing position of two canonical strings.
func firstDiff(a, b string) string {
	n := len(a)
	if len(b) < n {
		n = len(b)
	}
	i := 0
	for i < n && a[i] == b[i] {
		i++
	}
	lo := i - 60
	if lo < 0 {
		lo = 0
	}
	cut := func(s string) string {
		hi := i + 60
		if hi > len(s) {
			hi = len(s)
		}
		if lo > len(s) {
			return ""
		}
		return s[lo:hi]
	}
	return fmt.Sprintf("at %d: want ...%s... got ...%s...", i, cut(a), cut(b))
}
