package migworld

import (
	"context"
	"fmt"

	"github.com/NethermindEth/juno/blockchain/networks"
	"github.com/NethermindEth/juno/core"
	"github.com/NethermindEth/juno/db"
	"github.com/NethermindEth/juno/db/memory"
	_ "github.com/NethermindEth/juno/encoder/registry"
	"github.com/NethermindEth/juno/migration"
	"github.com/NethermindEth/juno/migration/blocktransactions/txlayout"
	"github.com/NethermindEth/juno/pruner"

	"jsim/chaingen"
	"jsim/harness/node"
	"jsim/sim"
)

// Positions of the released schema (what node.registerMigrations of the released binaries assigns;
// metadata written by earlier releases uses these bit positions). Constants of the harness: the
// registry the CURRENT node.registerMigrations builds is judged against them (migs.go).
const (
	idxBlockTx  = 0 // blocktransactions.Migrator (mandatory)
	idxPrune    = 1 // historyprunner (optional, --prune-mode)
	idxNewState = 2 // headstate.Migrator (optional, --new-state)
	idxSDL      = 3 // statedifflength.Migrator (mandatory)
	idxAux      = 4 // harness-defined well-behaved optional migration (flag flips)
	nProd       = 4
)

const batchSize = 10 // blocktransactions.batchSize (overlay.py checks the constant)

// layout is the "previous layout" a database image is in.
type layout int

const (
	layoutOldTx  layout = iota // per-transaction buckets, commitments without state diff length, nothing applied
	layoutPartTx               // like layoutOldTx but a prefix of whole batches was already converted by an interrupted older run
	layoutNewTx                // combined bucket (block-transactions applied), commitments without state diff length
	layoutPruned               // layoutNewTx + history pruner applied: blocks below the floor are absent
)

func (l layout) String() string {
	return [...]string{"old-tx", "old-tx-partly-converted", "new-tx", "new-tx-pruned"}[l]
}

// metaVariant: what the older binary left in the schema metadata bucket.
type metaVariant int

const (
	metaAbsent    metaVariant = iota // binary predating the registry: no metadata key
	metaZero                         // a binary with an empty target wrote {0,0}
	metaStarted                      // the older binary had recorded its target but applied nothing (old-tx only)
	metaExact                        // exactly the applied set of the layout, last target equal to it
	metaOptedMore                    // applied set of the layout, last target additionally contains an optional flag
)

type world struct {
	c                       *sim.Ctx
	net                     *networks.Network
	gen                     *chaingen.Gen
	chain                   []*chaingen.Block
	lay                     layout
	judgingUninterrupted    bool   // the image being judged is the uninterrupted upgrade's (oracle.go uses it to tell a new loss from the recorded finding)
	floor                   uint64 // layoutPruned: oldest retained block
	pre                     int    // layoutPartTx: number of blocks already converted (multiple of batchSize)
	meta                    metaVariant
	base                    *memory.Database // pristine previous-layout image
	baseMD                  *migration.SchemaMetadata
	optedAux, optedNewState bool // flags recorded in the base's last target
	golden                  bool // the bookkeeping records are the previous release's bytes (golden.go)
	sdlCkpt                 int  // -1: none; else an older run of the state-diff-length migration was interrupted with this checkpoint
	leadEmpty, trailEmpty   int
}

var blockCounts = []int{0, 1, 2, 9, 10, 11, 3, 19, 20, 21, 25, 30, 31, 40, 41, 50, 60}

// buildChain generates a valid chain from the tape.
func (w *world) buildChain(n int) {
	t := w.c.T
	w.gen = chaingen.New()
	w.net = w.gen.Net
	ver := chaingen.Versions[t.Draw("version", len(chaingen.Versions))]
	maxTxs := 1 + t.Draw("max.txs", 4)
	emptyNum := t.Draw("empty.num", 4) // 0: no forced empty blocks
	// runs of empty blocks at the start / at the end of the chain (0: none), around the batch size
	// (their own early draw: most runs have none, so that what they uncover does not hide the rest)
	lead, trail := 0, 0
	switch t.Draw("empty.shape", 12) {
	case 9:
		lead = []int{1, 9, 10, 13, n}[t.Draw("empty.lead", 5)]
	case 10:
		trail = []int{1, 5, 10, 11}[t.Draw("empty.trail", 4)]
	case 11:
		lead = []int{1, 10}[t.Draw("empty.lead", 2)]
		trail = []int{5, 11}[t.Draw("empty.trail", 2)]
	}
	w.leadEmpty, w.trailEmpty = min(lead, n), min(trail, n)
	var parent *chaingen.Block
	for i := 0; i < n; i++ {
		o := chaingen.Opts{Version: ver, MaxTxs: maxTxs, MaxDiff: 3, MaxEvents: 2}
		if emptyNum > 0 && t.Draw("empty", 4) < emptyNum-1 {
			o.Empty = true
		}
		if i < lead || i >= n-trail {
			o.Empty = true
		}
		b := w.gen.Next(t, parent, o)
		w.chain = append(w.chain, b)
		parent = b
	}
}

// buildBase stores the chain through the real Blockchain (current writers) and rewrites the image
// into the previous layout.
func (w *world) buildBase() {
	c := w.c
	st := node.NewStore(c, false)
	n := node.OpenNode(c, st, false, "seed")
	for _, b := range w.chain {
		c.Must(n.StoreBlock(b), fmt.Sprintf("store block %d", b.B.Number))
	}
	mem, ok := n.FDB.Inner.(*memory.Database)
	if !ok {
		c.Broken("node store is not the memory backend")
	}
	// commitments as written before the StateDiffLength field existed
	for _, b := range w.chain {
		cm, err := core.GetBlockCommitmentByBlockNum(mem, b.B.Number)
		c.Must(err, "read commitments")
		if w.sdlCkpt >= 0 && b.B.Number < uint64(w.sdlCkpt) {
			continue // backfilled by the interrupted older run
		}
		cm.StateDiffLength = 0
		c.Must(core.WriteBlockCommitment(mem, b.B.Number, cm), "rewrite commitments")
	}
	switch w.lay {
	case layoutOldTx, layoutPartTx:
		for _, b := range w.chain {
			if w.lay == layoutPartTx && int(b.B.Number) < w.pre {
				continue
			}
			c.Must(core.BlockTransactionsBucket.Delete(mem, b.B.Number), "drop combined entry")
			c.Must(txlayout.TransactionLayoutPerTx.WriteTransactionsAndReceipts(mem, b.B.Number, b.B.Transactions, b.B.Receipts), "write per-tx layout")
		}
		// sanity: the old accessors return the model's content
		for _, b := range w.chain {
			if w.lay == layoutPartTx && int(b.B.Number) < w.pre {
				continue
			}
			got, err := txlayout.TransactionLayoutPerTx.BlockByNumber(mem, b.B.Number)
			c.Must(err, "old layout read-back")
			if canon(got.Transactions) != canon(b.B.Transactions) || canon(got.Receipts) != canon(b.B.Receipts) {
				c.Broken("previous-layout image does not read back the generated content at block %d", b.B.Number)
			}
		}
	case layoutPruned:
		if w.floor > 0 {
			_, kept, err := pruner.PruneUpto(context.Background(), mem, w.floor, 1<<30)
			c.Must(err, "prune prefix")
			if kept != w.floor {
				c.Broken("PruneUpto kept %d, want %d", kept, w.floor)
			}
		}
	}
	// schema metadata as the older binary left it
	var applied, target migration.SchemaVersion
	switch w.lay {
	case layoutNewTx:
		applied.Set(idxBlockTx)
	case layoutPruned:
		applied.Set(idxBlockTx)
		applied.Set(idxPrune)
	}
	target = applied
	write := true
	switch w.meta {
	case metaAbsent:
		write = false
	case metaZero:
		applied, target = 0, 0
	case metaStarted:
		target.Set(idxBlockTx)
	case metaExact:
	case metaOptedMore:
		if w.optedAux {
			target.Set(idxAux)
		}
		if w.optedNewState {
			target.Set(idxNewState)
		}
	}
	if w.lay == layoutPartTx {
		// a gracefully cancelled older run: target recorded, empty resume token of the block-transactions migration
		target.Set(idxBlockTx)
		write = true
		applied = 0
		putState(c, mem, idxBlockTx, relEncState(idxBlockTx, nil), w.golden)
	}
	if w.sdlCkpt >= 0 {
		// an older run of the state-diff-length migration that was cancelled (or, with a checkpoint below
		// the floor, crashed after the history pruner of a later start had completed): target recorded,
		// checkpoint stored, every retained block below it backfilled
		target.Set(idxSDL)
		write = true
		putState(c, mem, idxSDL, relEncState(idxSDL, []uint64{uint64(w.sdlCkpt)}), w.golden)
	}
	if write {
		md := migration.SchemaMetadata{CurrentVersion: applied, LastTargetVersion: target}
		putMeta(c, mem, md, w.golden)
		w.baseMD = &md
	}
	if w.golden {
		putLegacy(c, mem)
	}
	w.base = mem
}

// readMeta is the harness's view of the schema metadata. A record in the released format is decoded
// by the harness itself (golden.go): what such a record says does not depend on how the code under
// test reads it. Anything else (no record, another encoding) is what the code under test reads.
func readMeta(c *sim.Ctx, r db.KeyValueReader) migration.SchemaMetadata {
	if raw, found, err := rawGet(r, relMetaKey); err != nil {
		c.Broken("read schema metadata: %v", err)
	} else if found {
		if cur, tgt, ok := relDecMeta(raw); ok {
			return migration.SchemaMetadata{CurrentVersion: migration.SchemaVersion(cur), LastTargetVersion: migration.SchemaVersion(tgt)}
		}
	}
	md, err := migration.GetSchemaMetadata(r)
	if err != nil {
		if isNotFound(err) {
			return migration.SchemaMetadata{}
		}
		c.Broken("read schema metadata: %v", err)
	}
	return md
}
