// Package migworld is the migration world of the simulator (property C18): the REAL
// migration.MigrationRunner, the REAL block-transactions / head-state / state-diff-length migrators
// and their REAL pipeline goroutines run on the repository's memory database behind a wrapper whose
// every read and every commit parks on a channel. The harness (the root goroutine of the worker's
// synctest bubble) releases exactly one parked database operation at a time, so that the
// interleaving of the pipeline's goroutines, the point of a context cancellation, the commit after
// which a crash image is taken and the commit that fails are all functions of the run's tape.
package migworld

import (
	"context"
	"errors"
	"fmt"
	"sort"
	"sync"
	"testing/synctest"

	"github.com/NethermindEth/juno/db"
	"github.com/NethermindEth/juno/db/memory"
)

var errInjected = errors.New("migworld: injected commit error")

type opKind uint8

const (
	opRead opKind = iota
	opCommit
)

// opInfo describes one scheduled database operation by CONTENT (never by goroutine identity).
type opInfo struct {
	kind   opKind
	name   string // get has iter snapshot | write put delete deleterange
	bucket byte   // first byte of the (first) key: the bucket
	key    string // hex of the key / prefix / batch digest
	nops   int    // commits: number of buffered operations in the batch
}

func (o opInfo) String() string {
	if o.kind == opCommit {
		return fmt.Sprintf("%s[%s n=%d %s]", o.name, bucketName(o.bucket), o.nops, short(o.key))
	}
	return fmt.Sprintf("%s[%s %s]", o.name, bucketName(o.bucket), short(o.key))
}

func short(s string) string {
	if len(s) > 26 {
		return s[:26] + "~"
	}
	return s
}

func bucketName(b byte) string {
	if b == toyBucket {
		return "Toy"
	}
	if b == 0xff {
		return "-"
	}
	return db.Bucket(b).String()
}

func (o opInfo) sortKey() string {
	return fmt.Sprintf("%d/%s/%02x/%s/%d", o.kind, o.name, o.bucket, o.key, o.nops)
}

type preq struct {
	info opInfo
	ch   chan bool // true: proceed, false: fail with errInjected
}

// plan is what the scheduler injects during ONE scheduled execution.
type plan struct {
	cancelAtOp   int                                           // cancel the context just before the j-th operation (1-based) executes
	cancel       context.CancelFunc                            //
	failCommitAt int                                           // the k-th commit returns errInjected, nothing applied
	afterCommit  func(k int, info opInfo)                      // called by the root once commit k is applied (crash image)
	onOp         func(j int, info opInfo, nParked, chosen int) // called by the root for every released op
	choose       func(n int) int                               // picks among n parked requests (sorted by content key)
	maxOps       int
}

// sched serialises all database traffic of the code under test.
type sched struct {
	mu     sync.Mutex
	parked []*preq
	active bool
	// results of the last execution
	ops, commits int
	cancelFired  bool
	cancelInfo   opInfo
	commitFailed bool
	failInfo     opInfo
	capped       bool
}

func (s *sched) gate(info opInfo) bool {
	s.mu.Lock()
	if !s.active {
		s.mu.Unlock()
		return true
	}
	r := &preq{info: info, ch: make(chan bool, 1)}
	s.parked = append(s.parked, r)
	s.mu.Unlock()
	return <-r.ch
}

// run executes fn on its own goroutine and schedules its database operations one at a time until fn
// returns. It must be called from the bubble's root goroutine. broken is set on machinery trouble.
func (s *sched) run(p plan, fn func() error) (err error, broken string) {
	s.mu.Lock()
	s.active = true
	s.parked = nil
	s.mu.Unlock()
	s.ops, s.commits, s.cancelFired, s.commitFailed, s.capped = 0, 0, false, false, false
	done := make(chan error, 1)
	go func() {
		done <- fn()
	}()
	pendingImage := 0
	var pendingInfo opInfo
	finish := func() {
		s.mu.Lock()
		s.active = false
		rest := s.parked
		s.parked = nil
		s.mu.Unlock()
		for _, r := range rest { // never expected; do not leave goroutines behind
			r.ch <- true
		}
		synctest.Wait()
	}
	for {
		synctest.Wait()
		if pendingImage != 0 {
			if p.afterCommit != nil {
				p.afterCommit(pendingImage, pendingInfo)
			}
			pendingImage = 0
		}
		select {
		case err = <-done:
			finish()
			return err, ""
		default:
		}
		s.mu.Lock()
		reqs := s.parked
		s.parked = nil
		s.mu.Unlock()
		if len(reqs) == 0 {
			finish()
			return nil, "scheduler: code under test is blocked but no database operation is parked"
		}
		sort.SliceStable(reqs, func(i, j int) bool { return reqs[i].info.sortKey() < reqs[j].info.sortKey() })
		i := 0
		if len(reqs) > 1 && p.choose != nil {
			i = p.choose(len(reqs))
		}
		r := reqs[i]
		rest := append(append([]*preq(nil), reqs[:i]...), reqs[i+1:]...)
		s.mu.Lock()
		s.parked = append(rest, s.parked...)
		s.mu.Unlock()
		s.ops++
		if p.maxOps > 0 && s.ops > p.maxOps {
			s.capped = true
			if p.cancel != nil {
				p.cancel()
			}
		}
		if p.onOp != nil {
			p.onOp(s.ops, r.info, len(reqs), i)
		}
		if p.cancelAtOp != 0 && s.ops == p.cancelAtOp && !s.cancelFired {
			s.cancelFired = true
			s.cancelInfo = r.info
			p.cancel()
			synctest.Wait() // everything that watches the context reacts before the operation runs
		}
		ok := true
		if r.info.kind == opCommit {
			s.commits++
			if p.failCommitAt != 0 && s.commits == p.failCommitAt {
				ok = false
				s.commitFailed = true
				s.failInfo = r.info
			} else {
				pendingImage, pendingInfo = s.commits, r.info
			}
		}
		r.ch <- ok
	}
}

// ---------------------------------------------------------------------------------------------

// sdb is the db.KeyValueStore handed to the code under test.
type sdb struct {
	inner *memory.Database
	s     *sched
}

var _ db.KeyValueStore = (*sdb)(nil)

func hexs(b []byte) string { return fmt.Sprintf("%x", b) }

func first(b []byte) byte {
	if len(b) == 0 {
		return 0xff
	}
	return b[0]
}

// unordered: reads the code under test issues in map-iteration order (the history pruner copies the
// history entries of a block's state diff by ranging over the diff's maps). Their order is decided by
// the Go runtime, so they are not scheduling points: they run inside the turn of the goroutine that
// was released last.
func unordered(key []byte) bool {
	switch db.Bucket(first(key)) {
	case db.DeprecatedContractStorageHistory, db.DeprecatedContractNonceHistory, db.DeprecatedContractClassHashHistory, db.Temporary:
		return true
	}
	return false
}

func (d *sdb) read(name string, key []byte) bool {
	if unordered(key) {
		return true
	}
	return d.s.gate(opInfo{kind: opRead, name: name, bucket: first(key), key: hexs(key)})
}

func (d *sdb) Has(key []byte) (bool, error) {
	d.read("has", key)
	return d.inner.Has(key)
}

func (d *sdb) Get(key []byte, cb func([]byte) error) error {
	d.read("get", key)
	return d.inner.Get(key, cb)
}

func (d *sdb) NewIterator(prefix []byte, ub bool) (db.Iterator, error) {
	d.read("iter", prefix)
	return d.inner.NewIterator(prefix, ub)
}

func (d *sdb) NewSnapshot() db.Snapshot {
	d.read("snapshot", nil)
	return d.inner.NewSnapshot()
}

func (d *sdb) direct(name string, key, extra []byte, apply func() error) error {
	h := newDigest()
	h.add(name, key, extra)
	if !d.s.gate(opInfo{kind: opCommit, name: name, bucket: first(key), key: fmt.Sprintf("%016x", h.sum), nops: 1}) {
		return errInjected
	}
	return apply()
}

func (d *sdb) Put(k, v []byte) error {
	return d.direct("put", k, v, func() error { return d.inner.Put(k, v) })
}

func (d *sdb) Delete(k []byte) error {
	return d.direct("delete", k, nil, func() error { return d.inner.Delete(k) })
}

func (d *sdb) DeleteRange(a, b []byte) error {
	return d.direct("deleterange", a, b, func() error { return d.inner.DeleteRange(a, b) })
}

func (d *sdb) NewBatch() db.Batch            { return &sbatch{d: d, b: d.inner.NewIndexedBatch(), h: newDigest()} }
func (d *sdb) NewBatchWithSize(int) db.Batch { return d.NewBatch() }
func (d *sdb) NewIndexedBatch() db.IndexedBatch {
	return &sbatch{d: d, b: d.inner.NewIndexedBatch(), h: newDigest()}
}
func (d *sdb) NewIndexedBatchWithSize(int) db.IndexedBatch {
	return d.NewIndexedBatch()
}

func (d *sdb) Update(fn func(db.IndexedBatch) error) error {
	b := d.NewIndexedBatch()
	if err := fn(b); err != nil {
		_ = b.Close()
		return err
	}
	return b.Write()
}

func (d *sdb) Write(fn func(db.Batch) error) error {
	b := d.NewBatch()
	if err := fn(b); err != nil {
		_ = b.Close()
		return err
	}
	return b.Write()
}

func (d *sdb) Impl() any    { return d.inner.Impl() }
func (d *sdb) Path() string { return "" }
func (d *sdb) Close() error { return nil }
func (d *sdb) WithListener(db.EventListener) db.KeyValueStore {
	return d
}

// digest identifies the content of a batch independently of the order in which its operations were
// buffered (the history pruner fills its batches in map-iteration order).
type digest struct{ sum uint64 }

func newDigest() *digest { return &digest{sum: 0xcbf29ce484222325} }

func fnvBytes(h uint64, b []byte) uint64 {
	for _, c := range b {
		h ^= uint64(c)
		h *= 0x100000001b3
	}
	h ^= 0xff
	h *= 0x100000001b3
	return h
}

func (h *digest) add(name string, k, v []byte) {
	x := fnvBytes(fnvBytes(fnvBytes(0xcbf29ce484222325, []byte(name)), k), v)
	h.sum += x * 0x9e3779b97f4a7c15
}

// sbatch buffers writes on a real memory batch; only Write (the commit) and reads are scheduled.
type sbatch struct {
	d     *sdb
	b     db.IndexedBatch
	h     *digest
	n     int
	first []byte
}

func (b *sbatch) note(name string, k, v []byte) {
	if b.n == 0 {
		b.first = append([]byte(nil), k...)
	}
	b.n++
	b.h.add(name, k, v)
}

func (b *sbatch) Put(k, v []byte) error {
	b.note("put", k, v)
	return b.b.Put(k, v)
}

func (b *sbatch) Delete(k []byte) error {
	b.note("delete", k, nil)
	return b.b.Delete(k)
}

func (b *sbatch) DeleteRange(s, e []byte) error {
	b.note("deleterange", s, e)
	return b.b.DeleteRange(s, e)
}

func (b *sbatch) Size() int    { return b.b.Size() }
func (b *sbatch) Close() error { return b.b.Close() }

func (b *sbatch) Write() error {
	if !b.d.s.gate(opInfo{kind: opCommit, name: "write", bucket: first(b.first), key: fmt.Sprintf("%016x", b.h.sum), nops: b.n}) {
		return errInjected
	}
	return b.b.Write()
}

func (b *sbatch) Has(k []byte) (bool, error) {
	b.d.read("bhas", k)
	return b.b.Has(k)
}

func (b *sbatch) Get(k []byte, cb func([]byte) error) error {
	b.d.read("bget", k)
	return b.b.Get(k, cb)
}

func (b *sbatch) NewIterator(p []byte, ub bool) (db.Iterator, error) {
	b.d.read("biter", p)
	return b.b.NewIterator(p, ub)
}
