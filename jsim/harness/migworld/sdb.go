// Package migworld is the migration world of the simulator (property C18): the REAL
// migration.MigrationRunner, the REAL block-transactions / head-state / state-diff-length migrators
// and their REAL pipeline goroutines run on the repository's memory database behind a wrapper whose
// every read and every commit parks on a channel. The harness (the root goroutine of the worker's
// synctest bubble) releases exactly one parked database operation at a time, so that the
// interleaving of the pipeline's goroutines, the point of a context cancellation, the commit after
// which a crash image is taken and the commit that fails are all functions of the run's tape.
package migworld

import (
	"context"
	"errors"
	"fmt"
	"sort"
	"sync"
	"testing/synctest"

	"github.com/NethermindEth/juno/db"
	"github.com/NethermindEth/juno/db/memory"
)

var errInjected = errors.New("migworld: injected commit error")

// errReadInjected is the transient I/O error of the fault class "read error during a start".
var errReadInjected = errors.New("migworld: injected transient read error")

// How a read fault manifests.
const (
	rfCall  = iota // the call itself fails: Get / Has return the error, NewIterator fails to open
	rfValue        // the iterator opens; its nth Value/UncopiedValue call returns the error (once)
	rfStop         // the iterator opens; its nth positioning call hits the error: it returns false, the iterator
	//                stays invalid and Close reports the error (what db/pebble's iterator does: pebble.Iterator
	//                keeps the I/O error and hands it out through Close; db.Iterator has no Error method)
	nReadModes
)

// readFault is ONE transient read error armed by the scheduler on one released read operation.
type readFault struct {
	mode int
	nth  int // rfValue / rfStop: 0-based index of the failing call on the iterator
	mu   sync.Mutex
	hit  bool   // the error was actually handed to the code under test
	how  string // get has iter_open iter_value iter_stop (+ b... for reads through an indexed batch)
}

func (f *readFault) fire(how string) {
	f.mu.Lock()
	f.hit, f.how = true, how
	f.mu.Unlock()
}

func (f *readFault) fired() (bool, string) {
	f.mu.Lock()
	defer f.mu.Unlock()
	return f.hit, f.how
}

// verdict is what the scheduler tells a released operation.
type verdict struct {
	ok   bool       // commits: false = fail with errInjected, nothing applied
	read *readFault // reads: non-nil = this read suffers the armed fault
}

type opKind uint8

const (
	opRead opKind = iota
	opCommit
)

// opInfo describes one scheduled database operation by CONTENT (never by goroutine identity).
type opInfo struct {
	kind   opKind
	name   string // get has iter snapshot | write put delete deleterange
	bucket byte   // first byte of the (first) key: the bucket
	key    string // hex of the key / prefix / batch digest
	nops   int    // commits: number of buffered operations in the batch
}

func (o opInfo) String() string {
	if o.kind == opCommit {
		return fmt.Sprintf("%s[%s n=%d %s]", o.name, bucketName(o.bucket), o.nops, short(o.key))
	}
	return fmt.Sprintf("%s[%s %s]", o.name, bucketName(o.bucket), short(o.key))
}

func short(s string) string {
	if len(s) > 26 {
		return s[:26] + "~"
	}
	return s
}

func bucketName(b byte) string {
	if b == toyBucket {
		return "Toy"
	}
	if b == 0xff {
		return "-"
	}
	return db.Bucket(b).String()
}

func (o opInfo) sortKey() string {
	return fmt.Sprintf("%d/%s/%02x/%s/%d", o.kind, o.name, o.bucket, o.key, o.nops)
}

type preq struct {
	info opInfo
	ch   chan verdict
}

// plan is what the scheduler injects during ONE scheduled execution.
type plan struct {
	cancelAtOp   int                                           // cancel the context just before the j-th operation (1-based) executes
	cancel       context.CancelFunc                            //
	failCommitAt int                                           // the k-th commit returns errInjected, nothing applied
	afterCommit  func(k int, info opInfo)                      // called by the root once commit k is applied (crash image)
	onOp         func(j int, info opInfo, nParked, chosen int) // called by the root for every released op
	readFault    func(j int, info opInfo) *readFault           // called by the root for every released read (after onOp): non-nil arms a fault on it
	choose       func(n int) int                               // picks among n parked requests (sorted by content key)
	cancelWhen   func(j int, info opInfo) bool                 // called by the root for every released op (after onOp): true = cancel the context just before it executes (once)
	failWhen     func(k int, info opInfo) bool                 // called by the root for every released commit (after onOp): true = it returns errInjected (once)
	maxOps       int
}

// sched serialises all database traffic of the code under test.
type sched struct {
	mu     sync.Mutex
	parked []*preq
	active bool
	// results of the last execution
	ops, commits int
	cancelFired  bool
	cancelInfo   opInfo
	commitFailed bool
	failInfo     opInfo
	capped       bool
}

func (s *sched) gate(info opInfo) verdict {
	s.mu.Lock()
	if !s.active {
		s.mu.Unlock()
		return verdict{ok: true}
	}
	r := &preq{info: info, ch: make(chan verdict, 1)}
	s.parked = append(s.parked, r)
	s.mu.Unlock()
	return <-r.ch
}

// run executes fn on its own goroutine and schedules its database operations one at a time until fn
// returns. It must be called from the bubble's root goroutine. broken is set on machinery trouble.
func (s *sched) run(p plan, fn func() error) (err error, broken string) {
	s.mu.Lock()
	s.active = true
	s.parked = nil
	s.mu.Unlock()
	s.ops, s.commits, s.cancelFired, s.commitFailed, s.capped = 0, 0, false, false, false
	done := make(chan error, 1)
	go func() {
		done <- fn()
	}()
	pendingImage := 0
	var pendingInfo opInfo
	finish := func() {
		s.mu.Lock()
		s.active = false
		rest := s.parked
		s.parked = nil
		s.mu.Unlock()
		for _, r := range rest { // never expected; do not leave goroutines behind
			r.ch <- verdict{ok: true}
		}
		synctest.Wait()
	}
	for {
		synctest.Wait()
		if pendingImage != 0 {
			if p.afterCommit != nil {
				p.afterCommit(pendingImage, pendingInfo)
			}
			pendingImage = 0
		}
		select {
		case err = <-done:
			finish()
			return err, ""
		default:
		}
		s.mu.Lock()
		reqs := s.parked
		s.parked = nil
		s.mu.Unlock()
		if len(reqs) == 0 {
			finish()
			return nil, "scheduler: code under test is blocked but no database operation is parked"
		}
		sort.SliceStable(reqs, func(i, j int) bool { return reqs[i].info.sortKey() < reqs[j].info.sortKey() })
		i := 0
		if len(reqs) > 1 && p.choose != nil {
			i = p.choose(len(reqs))
		}
		r := reqs[i]
		rest := append(append([]*preq(nil), reqs[:i]...), reqs[i+1:]...)
		s.mu.Lock()
		s.parked = append(rest, s.parked...)
		s.mu.Unlock()
		s.ops++
		if p.maxOps > 0 && s.ops > p.maxOps {
			s.capped = true
			if p.cancel != nil {
				p.cancel()
			}
		}
		if p.onOp != nil {
			p.onOp(s.ops, r.info, len(reqs), i)
		}
		if !s.cancelFired && ((p.cancelAtOp != 0 && s.ops == p.cancelAtOp) || (p.cancelWhen != nil && p.cancelWhen(s.ops, r.info))) {
			s.cancelFired = true
			s.cancelInfo = r.info
			p.cancel()
			synctest.Wait() // everything that watches the context reacts before the operation runs
		}
		ok := true
		if r.info.kind == opCommit {
			s.commits++
			if (p.failCommitAt != 0 && s.commits == p.failCommitAt) || (p.failWhen != nil && !s.commitFailed && p.failWhen(s.commits, r.info)) {
				ok = false
				s.commitFailed = true
				s.failInfo = r.info
			} else {
				pendingImage, pendingInfo = s.commits, r.info
			}
		}
		v := verdict{ok: ok}
		if r.info.kind == opRead && p.readFault != nil {
			v.read = p.readFault(s.ops, r.info)
		}
		r.ch <- v
	}
}

// ---------------------------------------------------------------------------------------------

// sdb is the db.KeyValueStore handed to the code under test.
type sdb struct {
	inner *memory.Database
	s     *sched
}

var _ db.KeyValueStore = (*sdb)(nil)

func hexs(b []byte) string { return fmt.Sprintf("%x", b) }

func first(b []byte) byte {
	if len(b) == 0 {
		return 0xff
	}
	return b[0]
}

// unordered: reads the code under test issues in map-iteration order (the history pruner copies the
// history entries of a block's state diff by ranging over the diff's maps). Their order is decided by
// the Go runtime, so they are not scheduling points: they run inside the turn of the goroutine that
// was released last.
func unordered(key []byte) bool {
	switch db.Bucket(first(key)) {
	case db.DeprecatedContractStorageHistory, db.DeprecatedContractNonceHistory, db.DeprecatedContractClassHashHistory, db.Temporary:
		return true
	}
	return false
}

// read parks a read; a non-nil result means that this read is the one that fails.
func (d *sdb) read(name string, key []byte) *readFault {
	if unordered(key) {
		return nil
	}
	return d.s.gate(opInfo{kind: opRead, name: name, bucket: first(key), key: hexs(key)}).read
}

func (d *sdb) Has(key []byte) (bool, error) {
	if rf := d.read("has", key); rf != nil {
		rf.fire("has")
		return false, errReadInjected
	}
	return d.inner.Has(key)
}

func (d *sdb) Get(key []byte, cb func([]byte) error) error {
	if rf := d.read("get", key); rf != nil {
		rf.fire("get")
		return errReadInjected
	}
	return d.inner.Get(key, cb)
}

func (d *sdb) NewIterator(prefix []byte, ub bool) (db.Iterator, error) {
	return faultyIter(d.read("iter", prefix), "", func() (db.Iterator, error) { return d.inner.NewIterator(prefix, ub) })
}

// faultyIter opens an iterator under an (optional) armed read fault.
func faultyIter(rf *readFault, pfx string, open func() (db.Iterator, error)) (db.Iterator, error) {
	if rf != nil && rf.mode == rfCall {
		rf.fire(pfx + "iter_open")
		return nil, errReadInjected
	}
	it, err := open()
	if err != nil || rf == nil {
		return it, err
	}
	return &faultIter{Iterator: it, rf: rf, pfx: pfx, left: rf.nth}, nil
}

// faultIter is an iterator that suffers one transient read error part-way (see rfValue, rfStop). It is
// used by one goroutine at a time, like every db.Iterator.
type faultIter struct {
	db.Iterator
	rf     *readFault
	pfx    string
	left   int  // calls of the affected kind that still succeed
	failed bool // rfStop: the error was hit; the iterator is invalid from then on
	done   bool // rfValue: the one failing call has happened
}

func (it *faultIter) position(f func() bool) bool {
	if it.failed {
		return false
	}
	if it.rf.mode == rfStop {
		if it.left == 0 {
			it.failed = true
			it.rf.fire(it.pfx + "iter_stop")
			return false
		}
		it.left--
	}
	return f()
}

func (it *faultIter) First() bool { return it.position(it.Iterator.First) }
func (it *faultIter) Next() bool  { return it.position(it.Iterator.Next) }
func (it *faultIter) Prev() bool  { return it.position(it.Iterator.Prev) }
func (it *faultIter) Seek(k []byte) bool {
	return it.position(func() bool { return it.Iterator.Seek(k) })
}
func (it *faultIter) Valid() bool { return !it.failed && it.Iterator.Valid() }

func (it *faultIter) Key() []byte {
	if it.failed {
		return nil
	}
	return it.Iterator.Key()
}

func (it *faultIter) value(f func() ([]byte, error)) ([]byte, error) {
	if it.failed {
		return nil, errReadInjected
	}
	if it.rf.mode == rfValue && !it.done {
		if it.left == 0 {
			it.done = true
			it.rf.fire(it.pfx + "iter_value")
			return nil, errReadInjected
		}
		it.left--
	}
	return f()
}

func (it *faultIter) Value() ([]byte, error)         { return it.value(it.Iterator.Value) }
func (it *faultIter) UncopiedValue() ([]byte, error) { return it.value(it.Iterator.UncopiedValue) }

func (it *faultIter) Close() error {
	err := it.Iterator.Close()
	if it.failed {
		return errReadInjected
	}
	return err
}

func (d *sdb) NewSnapshot() db.Snapshot {
	d.read("snapshot", nil)
	return d.inner.NewSnapshot()
}

func (d *sdb) direct(name string, key, extra []byte, apply func() error) error {
	h := newDigest()
	h.add(name, key, extra)
	if !d.s.gate(opInfo{kind: opCommit, name: name, bucket: first(key), key: fmt.Sprintf("%016x", h.sum), nops: 1}).ok {
		return errInjected
	}
	return apply()
}

func (d *sdb) Put(k, v []byte) error {
	return d.direct("put", k, v, func() error { return d.inner.Put(k, v) })
}

func (d *sdb) Delete(k []byte) error {
	return d.direct("delete", k, nil, func() error { return d.inner.Delete(k) })
}

func (d *sdb) DeleteRange(a, b []byte) error {
	return d.direct("deleterange", a, b, func() error { return d.inner.DeleteRange(a, b) })
}

func (d *sdb) NewBatch() db.Batch            { return &sbatch{d: d, b: d.inner.NewIndexedBatch(), h: newDigest()} }
func (d *sdb) NewBatchWithSize(int) db.Batch { return d.NewBatch() }
func (d *sdb) NewIndexedBatch() db.IndexedBatch {
	return &sbatch{d: d, b: d.inner.NewIndexedBatch(), h: newDigest()}
}
func (d *sdb) NewIndexedBatchWithSize(int) db.IndexedBatch {
	return d.NewIndexedBatch()
}

func (d *sdb) Update(fn func(db.IndexedBatch) error) error {
	b := d.NewIndexedBatch()
	if err := fn(b); err != nil {
		_ = b.Close()
		return err
	}
	return b.Write()
}

func (d *sdb) Write(fn func(db.Batch) error) error {
	b := d.NewBatch()
	if err := fn(b); err != nil {
		_ = b.Close()
		return err
	}
	return b.Write()
}

func (d *sdb) Impl() any    { return d.inner.Impl() }
func (d *sdb) Path() string { return "" }
func (d *sdb) Close() error { return nil }
func (d *sdb) WithListener(db.EventListener) db.KeyValueStore {
	return d
}

// digest identifies the content of a batch independently of the order in which its operations were
// buffered (the history pruner fills its batches in map-iteration order).
type digest struct{ sum uint64 }

func newDigest() *digest { return &digest{sum: 0xcbf29ce484222325} }

func fnvBytes(h uint64, b []byte) uint64 {
	for _, c := range b {
		h ^= uint64(c)
		h *= 0x100000001b3
	}
	h ^= 0xff
	h *= 0x100000001b3
	return h
}

func (h *digest) add(name string, k, v []byte) {
	x := fnvBytes(fnvBytes(fnvBytes(0xcbf29ce484222325, []byte(name)), k), v)
	h.sum += x * 0x9e3779b97f4a7c15
}

// sbatch buffers writes on a real memory batch; only Write (the commit) and reads are scheduled.
type sbatch struct {
	d     *sdb
	b     db.IndexedBatch
	h     *digest
	n     int
	first []byte
}

func (b *sbatch) note(name string, k, v []byte) {
	if b.n == 0 {
		b.first = append([]byte(nil), k...)
	}
	b.n++
	b.h.add(name, k, v)
}

func (b *sbatch) Put(k, v []byte) error {
	b.note("put", k, v)
	return b.b.Put(k, v)
}

func (b *sbatch) Delete(k []byte) error {
	b.note("delete", k, nil)
	return b.b.Delete(k)
}

func (b *sbatch) DeleteRange(s, e []byte) error {
	b.note("deleterange", s, e)
	return b.b.DeleteRange(s, e)
}

func (b *sbatch) Size() int    { return b.b.Size() }
func (b *sbatch) Close() error { return b.b.Close() }

func (b *sbatch) Write() error {
	if !b.d.s.gate(opInfo{kind: opCommit, name: "write", bucket: first(b.first), key: fmt.Sprintf("%016x", b.h.sum), nops: b.n}).ok {
		return errInjected
	}
	return b.b.Write()
}

func (b *sbatch) Has(k []byte) (bool, error) {
	if rf := b.d.read("bhas", k); rf != nil {
		rf.fire("bhas")
		return false, errReadInjected
	}
	return b.b.Has(k)
}

func (b *sbatch) Get(k []byte, cb func([]byte) error) error {
	if rf := b.d.read("bget", k); rf != nil {
		rf.fire("bget")
		return errReadInjected
	}
	return b.b.Get(k, cb)
}

func (b *sbatch) NewIterator(p []byte, ub bool) (db.Iterator, error) {
	return faultyIter(b.d.read("biter", p), "b", func() (db.Iterator, error) { return b.b.NewIterator(p, ub) })
}
