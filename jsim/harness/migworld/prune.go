package migworld

import (
	"errors"
	"fmt"
	"regexp"
	"time"

	"github.com/NethermindEth/juno/blockchain"
	"github.com/NethermindEth/juno/core"
	"github.com/NethermindEth/juno/core/felt"
	"github.com/NethermindEth/juno/db"
	"github.com/NethermindEth/juno/db/memory"
	"github.com/NethermindEth/juno/l1/eth"
	"github.com/NethermindEth/juno/migration"
	"github.com/NethermindEth/juno/pruner"

	"jsim/chaingen"
	"jsim/harness/node"
	"jsim/refstate"
	"jsim/sim"
)

// The history-pruner classes drive the REAL migration/historyprunner (setup batches, stager,
// restorer, committer, copy) through the real runner on a legacy-state chain with a recorded L1 head.
//
// Wall clock: the migrator only evaluates time.Now().Add(-minAge). Block timestamps are the
// generator's fixed ones; the harness places the cutoff instant C among them by configuring
// minAge = (bubble clock now) - C at the first start of a database's life, and lets the bubble clock
// really advance (time.Sleep on the root goroutine) for "min-age drift" between an interruption and
// the resume. Nothing that depends on the absolute bubble time is logged or stored.

// pIn: the inputs the cutoff is computed from, in reference terms.
type pIn struct {
	R   uint64 // --prune-retained-blocks
	l1  uint64 // block number of the recorded L1 head
	cut int64  // absolute instant now-minAge in unix seconds (0: min-age off)
}

func (p pIn) String() string {
	return fmt.Sprintf("{retained=%d l1head=%d cutoff_instant=%d}", p.R, p.l1, p.cut)
}

// refFloor is the documented cutoff: retainedBlocks blocks below min(L1 head, chain height) are
// kept, the pivot itself on top; blocks whose timestamp is not older than min-age are kept as well;
// a chain shorter than the retention window is not pruned (prune=false).
func refFloor(chain []*chaingen.Block, in pIn) (floor uint64, prune bool) {
	if len(chain) == 0 {
		return 0, false
	}
	pivot := min(in.l1, uint64(len(chain)-1))
	if pivot < in.R {
		return 0, false
	}
	floor = pivot - in.R
	if in.cut != 0 {
		for i := uint64(0); i <= pivot; i++ {
			if chain[i].B.Timestamp >= uint64(in.cut) {
				floor = min(floor, i)
				break
			}
		}
	}
	return floor, true
}

type pruneCase struct {
	e        *env
	c        *sim.Ctx
	w        *world
	next     *chaingen.Block // a valid successor of the head (must still be storable afterwards)
	base     *memory.Database
	in0, in1 pIn
	drift    int64
	seed     uint64
	noop     bool
	needTx   bool // every block holds a transaction (class cross/history on per-transaction layouts)
	refs     map[pIn]*memory.Database
	refOps   map[pIn][2]int
	touched  map[felt.Felt][]felt.Felt
}

// session is one database life: starts share the image, the min-age configuration is fixed at the
// first start, inputs may change between starts.
type session struct {
	pc        *pruneCase
	img       *memory.Database
	cur       pIn // inputs in force now (cut already includes the drift slept so far)
	minAge    time.Duration
	minAgeSet bool
	effective *pIn // inputs in force when the pruner first had a durable effect
}

func (pc *pruneCase) newSession(img *memory.Database, in pIn) *session {
	s := &session{pc: pc, img: img, cur: in}
	pc.setL1(img, in.l1)
	return s
}

func (pc *pruneCase) setL1(img *memory.Database, l1 uint64) {
	if len(pc.w.chain) == 0 {
		return
	}
	b := pc.w.chain[min(l1, uint64(len(pc.w.chain)-1))]
	pc.c.Must(core.WriteL1Head(img, &core.L1Head{BlockNumber: l1, BlockHash: b.B.Hash, StateRoot: b.B.GlobalStateRoot}), "write L1 head")
}

// change applies new inputs: another retained-blocks value, the L1 head moved up, the clock advanced.
func (s *session) change(in pIn, drift int64) {
	if in.l1 != s.cur.l1 {
		s.pc.setL1(s.img, in.l1)
	}
	s.cur.R, s.cur.l1 = in.R, in.l1
	if drift > 0 && s.cur.cut != 0 {
		time.Sleep(time.Duration(drift) * time.Second)
		s.cur.cut += drift
	}
}

func (s *session) binary() binary {
	if !s.minAgeSet {
		s.minAgeSet = true
		if s.cur.cut != 0 {
			s.minAge = time.Since(time.Unix(s.cur.cut, 0))
		}
	}
	f := flags{entries: nProd + 1, prune: true, retained: s.cur.R, minAge: s.minAge}
	return binary{
		prod: true,
		desc: f.String(), target: f.target(), nEntries: f.entries,
		build: func(rl *runLog, cancel func()) *migration.Registry {
			return prodRegistry(s.pc.e, f, rl, &toy{id: idxAux, units: 1, cancel: cancel, executed: map[outcome]int{}})
		},
	}
}

// start runs one binary start and tracks when the pruner first becomes durable.
func (s *session) start(in inject) (*startRes, binary) {
	b := s.binary()
	r := s.pc.e.start(s.img, b, in)
	s.pc.c.Evals++
	if s.effective == nil && (r.migCommits[idxPrune] > 0 || (r.post.CurrentVersion.Has(idxPrune) && !r.pre.CurrentVersion.Has(idxPrune))) {
		eff := s.cur
		s.effective = &eff
	}
	return r, b
}

func hasNoopWrite(b *chaingen.Block) bool {
	for a, slots := range b.SU.StateDiff.StorageDiffs {
		for k, v := range slots {
			var pre felt.Felt
			if c := b.Pre.Contracts[a]; c != nil {
				pre = c.Storage[k]
			}
			if v.Equal(&pre) {
				return true
			}
		}
	}
	return false
}

// buildPruneChain: legacy-state chain with storage / nonce / class-replacement history, L1 handler
// transactions and empty blocks. Blocks are generated from forked tape streams (one recorded word
// each); unless noop is set, a block whose state diff contains a write that does not change the
// value is regenerated (the legacy backend records no history entry for such a write).
func (pc *pruneCase) buildPruneChain(n int) {
	t, w := pc.c.T, pc.w
	w.gen = chaingen.New()
	w.net = w.gen.Net
	w.lay = layoutNewTx
	ver := chaingen.Versions[t.Draw("version", len(chaingen.Versions))]
	maxTxs := 1 + t.Draw("max.txs", 3)
	maxDiff := 2 + t.Draw("max.diff", 5)
	emptyNum := t.Draw("empty.num", 4)
	gen := func(parent *chaingen.Block, empty bool) *chaingen.Block {
		ft := t.Fork("block")
		o := chaingen.Opts{Version: ver, MaxTxs: maxTxs, MaxDiff: maxDiff, MaxEvents: 2, Empty: empty}
		for try := 0; ; try++ {
			b := w.gen.Next(ft, parent, o)
			if (pc.noop || !hasNoopWrite(b)) && (!pc.needTx || len(b.B.Transactions) > 0) {
				return b
			}
			if try == 12 {
				o.MaxDiff = 0
			}
		}
	}
	var parent *chaingen.Block
	for i := 0; i < n; i++ {
		b := gen(parent, emptyNum > 0 && t.Draw("empty", 5) < emptyNum-1 && !pc.needTx)
		w.chain = append(w.chain, b)
		parent = b
	}
	pc.next = gen(parent, false)
	touched := map[felt.Felt]map[felt.Felt]bool{}
	for _, b := range append(append([]*chaingen.Block(nil), w.chain...), pc.next) {
		for a, slots := range b.SU.StateDiff.StorageDiffs {
			if touched[a] == nil {
				touched[a] = map[felt.Felt]bool{}
			}
			for k := range slots {
				touched[a][k] = true
			}
		}
	}
	pc.touched = map[felt.Felt][]felt.Felt{}
	for a, m := range touched {
		pc.touched[a] = refstate.SortedFelts(m)
	}
}

func (pc *pruneCase) buildPruneBase(sdlPending bool) {
	c, w := pc.c, pc.w
	st := node.NewStore(c, false)
	n := node.OpenNode(c, st, false, "seed")
	for _, b := range w.chain {
		c.Must(n.StoreBlock(b), fmt.Sprintf("store block %d", b.B.Number))
	}
	mem, ok := n.FDB.Inner.(*memory.Database)
	if !ok {
		c.Broken("node store is not the memory backend")
	}
	var applied migration.SchemaVersion
	applied.Set(idxBlockTx)
	if sdlPending {
		for _, b := range w.chain {
			cm, err := core.GetBlockCommitmentByBlockNum(mem, b.B.Number)
			c.Must(err, "read commitments")
			cm.StateDiffLength = 0
			c.Must(core.WriteBlockCommitment(mem, b.B.Number, cm), "rewrite commitments")
		}
	} else {
		applied.Set(idxSDL)
	}
	putMeta(c, mem, migration.SchemaMetadata{CurrentVersion: applied, LastTargetVersion: applied}, w.golden)
	if w.golden {
		putLegacy(c, mem)
	}
	pc.base = mem
	w.base = mem
}

var retainSizes = []uint64{0, 1, 5, 50, 1 << 20}

func (pc *pruneCase) drawInputs(label string, lo pIn, first bool) pIn {
	t, n := pc.c.T, len(pc.w.chain)
	in := pIn{R: retainSizes[t.Draw(label+".retained", len(retainSizes))]}
	if n > 0 {
		in.l1 = uint64(n - 1 - t.Draw(label+".l1.back", min(n, 8)))
		if t.Chance(label+".l1.any", 1, 4) {
			in.l1 = uint64(t.Draw(label+".l1", n))
		}
		if !first && in.l1 < lo.l1 {
			in.l1 = lo.l1 // the L1 head only moves up
		}
	}
	return in
}

func runPrune(e *env, cls int) {
	c, t := e.c, e.c.T
	pc := &pruneCase{e: e, c: c, w: &world{c: c, sdlCkpt: -1}, refs: map[pIn]*memory.Database{}, refOps: map[pIn][2]int{}}
	n := []int{0, 12, 1, 2, 5, 9, 10, 11, 20, 25, 30, 40, 60}[t.Draw("blocks", 13)]
	// rare shapes, each its own early draw, so that what they uncover does not hide the rest
	pc.noop = t.Chance("shape.noop_writes", 1, 12)
	allowZero := t.Chance("shape.cutoff_zero", 1, 12)
	pc.buildPruneChain(n)
	pc.w.golden = t.Chance("golden", 1, 2)
	e.golden = pc.w.golden
	if e.golden {
		c.Probe("golden_records")
	}
	pc.buildPruneBase(t.Chance("sdl.pending", 1, 3))
	pc.seed = t.U64("sched.seed")
	if t.Chance("sched.simple", 1, 4) {
		pc.seed = 0
	}
	// original inputs
	for try := 0; ; try++ {
		pc.in0 = pc.drawInputs("in0", pIn{}, true)
		if n > 0 && t.Chance("minage.on", 1, 2) {
			k := t.Draw("minage.block", n+1)
			if k < n {
				pc.in0.cut = int64(pc.w.chain[k].B.Timestamp) + int64(t.Draw("minage.plus", 2))
			} else {
				pc.in0.cut = int64(pc.w.chain[n-1].B.Timestamp) + 100
			}
		}
		f, prune := refFloor(pc.w.chain, pc.in0)
		if allowZero || !prune || f > 0 || n == 0 {
			break
		}
		if try == 3 {
			if n >= 2 {
				pc.in0 = pIn{R: 0, l1: uint64(n - 1)}
			} else {
				pc.in0 = pIn{R: 1 << 20}
			}
			break
		}
	}
	// changed inputs at a resume
	changed := cls == clPruneCrashChanged || (cls == clPruneCancel && t.Chance("changed", 2, 3))
	pc.in1 = pc.in0
	if changed && n > 0 {
		x := pc.drawInputs("in1", pc.in0, false)
		switch t.Draw("change.kind", 4) {
		case 0:
			pc.in1.R = x.R
		case 1:
			pc.in1.l1 = x.l1
		case 2:
			pc.drift = int64(1 + t.Draw("drift", 400))
		default:
			pc.in1.R, pc.in1.l1 = x.R, x.l1
			pc.drift = int64(t.Draw("drift", 400))
		}
		if pc.in0.cut == 0 {
			pc.drift = 0
		}
	}
	f0, prune0 := refFloor(pc.w.chain, pc.in0)
	in1eff := pc.in1
	if in1eff.cut != 0 {
		in1eff.cut += pc.drift
	}
	f1, prune1 := refFloor(pc.w.chain, in1eff)
	nTx, nL1 := 0, 0
	for _, b := range pc.w.chain {
		nTx += len(b.B.Transactions)
		for _, tx := range b.B.Transactions {
			if _, ok := tx.(*core.L1HandlerTransaction); ok {
				nL1++
			}
		}
	}
	c.Sample = map[string]any{"class": className[cls], "blocks": n, "txs": nTx, "l1_handler_txs": nL1, "inputs": pc.in0.String(), "cutoff": f0, "prunes": prune0,
		"changed_inputs": pc.in1.String(), "drift_s": pc.drift, "cutoff_of_changed_inputs": f1, "noop_writes": pc.noop}
	c.Logf("prune world: %d blocks %d txs (%d l1 handler) noop=%v inputs=%s -> cutoff %d prune=%v; changed=%s drift=%ds -> cutoff %d prune=%v",
		n, nTx, nL1, pc.noop, pc.in0, f0, prune0, pc.in1, pc.drift, f1, prune1)
	if n == 0 {
		c.Probe("zero_block_db")
	}
	if prune0 && f0 == 0 {
		c.Probe("prune_cutoff_zero")
	}
	if !prune0 && n > 0 {
		c.Probe("prune_chain_shorter_than_retention")
	}
	if pc.in0.cut != 0 && prune0 && f0 < min(pc.in0.l1, uint64(n-1))-pc.in0.R {
		c.Probe("prune_minage_tightens_cutoff")
	}
	if nL1 > 0 {
		c.Probe("prune_l1_handler_tx")
	}
	if prune0 && f0 > core.BlockHashLag {
		c.Probe("prune_headers_below_lag_window_deleted")
	}

	// the uninterrupted run with the original inputs (source of the crash images)
	type image struct {
		k         int
		info      opInfo
		img       *memory.Database
		committed bool // the pruner had made a commit at or before this one
	}
	var images []image
	var refRes *startRes
	committed := false
	// (chains with no-op writes: the copy loop fails half-way through a block's diff in map order, so
	// batch contents, and with them the content-sorted schedule, are not reproducible: no per-op log)
	ref := pc.uninterrupted(pc.in0, !pc.noop, func(k int, info opInfo, mig int, img *memory.Database) {
		if mig == idxPrune {
			committed = true
		}
		images = append(images, image{k: k, info: info, img: img, committed: committed})
	}, &refRes)
	_ = ref
	nOps, nCom := refRes.ops, refRes.commits
	stageSeen := map[string]bool{}

	switch cls {
	case clPruneCancel:
		full, sample := 60, 20
		if c.Tier == "thorough" {
			full, sample = 150, 48
		}
		for _, j := range pickPointsFull(t, "cancel.j", nOps+1, full, sample) {
			s := pc.newSession(pc.base.Copy(), pc.in0)
			r, b := s.start(inject{schedSeed: pc.seed, cancelAtOp: j, tag: fmt.Sprintf("cancel%d", j)})
			if r.cancelFired {
				c.Fault("ctx_cancel_at_op")
				c.Probe("cancel_at_" + r.cancelStage)
				stageSeen[r.cancelStage] = true
			}
			c.Logf("cancel at op %d (%s, %s)", j, r.cancelStage, r.cancelInfo)
			what := fmt.Sprintf("start cancelled at operation %d (%s: %s)", j, r.cancelStage, r.cancelInfo)
			pc.afterInterrupted(r, b, what, "cancel")
			if pc.in1 != pc.in0 || pc.drift != 0 {
				s.change(pc.in1, pc.drift)
				c.Fault("prune_inputs_changed")
			}
			nMore := t.Draw("cancel.more", 3)
			for i := 0; i < nMore; i++ {
				j2 := 1 + t.Draw("cancel.j2", nOps+1)
				r2, b2 := s.start(inject{schedSeed: mix(pc.seed, uint64(j), uint64(i)), cancelAtOp: j2, tag: "recancel"})
				c.Fault("restart")
				if r2.cancelFired {
					c.Fault("ctx_cancel_at_op")
					c.Probe("cancel_at_" + r2.cancelStage)
				}
				if len(r2.preStates[idxPrune]) > 0 {
					c.Probe("prune_resumed_with_state")
				}
				pc.afterInterrupted(r2, b2, what+fmt.Sprintf(", restart %d cancelled at its operation %d", i+1, j2), "cancel")
			}
			if _, ok := readStates(c, s.img, maxEntries)[idxPrune]; ok {
				c.Probe("prune_resumed_with_state")
			}
			pc.finish(s, inject{schedSeed: mix(pc.seed, uint64(j), 99), tag: "resume"}, what+fmt.Sprintf(" and %d more cancelled restarts", nMore), "cancel")
			c.Fault("restart")
		}
		c.Nontrivial = prune0 && f0 > 0 && len(stageSeen) >= 2
	case clPruneCrash, clPruneCrashChanged:
		nested := 0
		for _, im := range images {
			c.Fault("crash_after_commit")
			s := pc.newSession(im.img, pc.in0)
			if im.committed || readMeta(c, im.img).CurrentVersion.Has(idxPrune) {
				eff := pc.in0
				s.effective = &eff
			}
			s.minAgeSet, s.minAge = true, 0
			if pc.in0.cut != 0 {
				s.minAge = time.Since(time.Unix(pc.in0.cut, 0))
			}
			kind := "crash"
			if cls == clPruneCrashChanged {
				s.change(pc.in1, pc.drift)
				c.Fault("prune_inputs_changed")
				kind = "crash_changed_inputs"
			}
			if stageOfCommit(im.info) != "" {
				c.Probe("crash_in_" + stageOfCommit(im.info))
			}
			what := fmt.Sprintf("crash after commit %d of %d (%s)", im.k, nCom, im.info)
			var inner []image
			rin := inject{schedSeed: mix(pc.seed, uint64(im.k)), tag: fmt.Sprintf("rec%d", im.k)}
			wantNested := nested < 3 && t.Chance("nested", 1, 6)
			if wantNested {
				rin.images = func(k int, info opInfo, _ int, img *memory.Database) {
					inner = append(inner, image{k: k, info: info, img: img})
				}
			}
			eff := s.effective
			pc.finish(s, rin, what, kind)
			c.Logf("crash image %d/%d after %s: recovered", im.k, nCom, im.info)
			if wantNested && len(inner) > 0 {
				nested++
				im2 := inner[t.Draw("nested.k", len(inner))]
				c.Fault("crash_after_commit")
				c.Probe("nested_crash")
				s2 := &session{pc: pc, img: im2.img, cur: s.cur, minAge: s.minAge, minAgeSet: true, effective: eff}
				if s2.effective == nil {
					// whether the pruner had committed inside the recovery before this image is not tracked:
					// take the inputs of the recovery, which are the only ones since the crash
					e2 := s.cur
					s2.effective = &e2
				}
				pc.finish(s2, inject{schedSeed: mix(pc.seed, uint64(im.k), uint64(im2.k)), tag: "rec2"}, what+fmt.Sprintf(", then crash after commit %d of the recovery", im2.k), kind)
			}
		}
		c.Nontrivial = prune0 && f0 > 0 && len(images) >= 4
	case clPruneCommitErr:
		nk := 24
		if c.Tier == "thorough" {
			nk = 200
		}
		ks := pickPoints(t, "fail.k", nCom, nk)
		for _, k := range ks {
			s := pc.newSession(pc.base.Copy(), pc.in0)
			r, b := s.start(inject{schedSeed: pc.seed, failCommitAt: k, tag: fmt.Sprintf("fail%d", k)})
			if !r.failFired {
				c.Broken("commit %d of %d did not happen on the same schedule", k, nCom)
			}
			c.Fault("commit_error")
			c.Logf("commit error at commit %d (%s): run err=%v", k, r.failInfo, r.runErr != nil)
			if m := checkStart(r, b, false); m != nil {
				failM(c, m, fmt.Sprintf("start with a failing commit %d (%s)", k, r.failInfo))
			}
			if r.runErr == nil && r.post.CurrentVersion.Contains(b.target) {
				c.Fail("bookkeeping", "failed_commit_reported_as_success", "commit %d (%s) failed but the run reported a completed upgrade", k, r.failInfo)
			}
			pc.finish(s, inject{schedSeed: mix(pc.seed, 77, uint64(k)), tag: "retry"}, fmt.Sprintf("commit error at commit %d (%s), then restart", k, r.failInfo), "commit_error")
			c.Fault("restart")
		}
		c.Nontrivial = prune0 && f0 > 0 && len(ks) >= 3
	}
}

func stageOfCommit(o opInfo) string {
	switch db.Bucket(o.bucket) {
	case db.Temporary:
		return "prune_stager"
	case db.DeprecatedContractStorageHistory, db.DeprecatedContractNonceHistory, db.DeprecatedContractClassHashHistory, db.BlockHeaderNumbersByHash:
		return "prune_restorer"
	}
	return ""
}

// afterInterrupted: the bookkeeping of an interrupted start; a cancelled start may only report the
// cancellation.
func (pc *pruneCase) afterInterrupted(r *startRes, b binary, what, kind string) {
	c := pc.c
	if r.refused != nil {
		c.Fail("prune_restart_fails", "refused_after_"+kind, "%s: the binary is refused: %v", what, r.refused)
	}
	if m := checkStart(r, b, false); m != nil {
		failM(c, m, what)
	}
	if r.runErr != nil && (r.ctxErrAtEnd == nil || !isCtxErr(r.runErr, r.ctxErrAtEnd)) {
		c.Fail("prune_restart_fails", "start_fails_after_"+kind, "%s: the start failed with an error that is not the cancellation: %s", what, stableErr(r.runErr))
	}
}

func isCtxErr(err, ctxErr error) bool { return errors.Is(err, ctxErr) }

// which block fails first may depend on the (content-sorted) order of partially filled batches
var varBlockPart = regexp.MustCompile(`(at|for) block \d+`)

var varErrPart = regexp.MustCompile(`(addr|slot) \[[^\]]*\]`)

// stableErr renders an error of the migration without the parts that depend on Go's map iteration
// order (which entry of a block's state diff the copy loop reached first).
func stableErr(err error) string {
	if err == nil {
		return "<nil>"
	}
	return varBlockPart.ReplaceAllString(varErrPart.ReplaceAllString(err.Error(), "$1 <..>"), "$1 block <n>")
}

// uninterrupted runs the upgrade on a copy of the base with the given inputs, checks the result
// against the model and caches the image.
func (pc *pruneCase) uninterrupted(in pIn, logOps bool, images func(int, opInfo, int, *memory.Database), out **startRes) *memory.Database {
	if img, ok := pc.refs[in]; ok && images == nil {
		return img
	}
	c := pc.c
	s := pc.newSession(pc.base.Copy(), in)
	tag := "ref"
	if !logOps {
		tag = "ref'"
	}
	r, b := s.start(inject{schedSeed: pc.seed, logOps: logOps, tag: tag, images: images})
	if out != nil {
		*out = r
	}
	f, prune := refFloor(pc.w.chain, in)
	suffix := pc.shapeSuffix(f, prune)
	if logOps && r.runErr == nil {
		c.Logf("ref: refused=%v ops=%d commits=%d applied=%b calls=%s", r.refused, r.ops, r.commits, r.post.CurrentVersion, callStr(r.rl))
	}
	if r.refused != nil || r.runErr != nil {
		c.Fail("prune_uninterrupted_fails", "run_failed"+suffix, "uninterrupted upgrade with inputs %s (cutoff %d, prunes=%v) of a %d-block chain failed: refused=%v err=%s", in, f, prune, len(pc.w.chain), r.refused, stableErr(r.runErr))
	}
	if m := checkStart(r, b, true); m != nil {
		failM(c, m, "uninterrupted run")
	}
	pc.checkPruned(s.img, in, b, "uninterrupted run with inputs "+in.String(), "")
	pc.refs[in] = s.img
	return s.img
}

func (pc *pruneCase) shapeSuffix(f uint64, prune bool) string {
	s := ""
	if prune && f == 0 {
		s += "_cutoff_zero"
	}
	if pc.noop {
		for _, b := range pc.w.chain {
			if hasNoopWrite(b) {
				return s + "_chain_with_noop_storage_write"
			}
		}
	}
	return s
}

func stripL1(img *memory.Database) *memory.Database {
	cp := img.Copy()
	_ = cp.Delete(db.L1Height.Key())
	return cp
}

// finish: fault-free starts until the upgrade completes (a healthy database needs one), then the
// final checks against the uninterrupted run with the inputs that were in force when the pruner first
// became durable.
func (pc *pruneCase) finish(s *session, in inject, what, kind string) {
	c := pc.c
	r, b := s.start(in)
	if r.capped {
		c.Inconclusive++
		return
	}
	if r.refused != nil {
		c.Fail("prune_restart_fails", "refused_after_"+kind, "%s: the restarted binary (inputs %s) is refused: %v", what, s.cur, r.refused)
	}
	if r.runErr != nil {
		f, prune := refFloor(pc.w.chain, s.cur)
		if s.effective != nil {
			f, prune = refFloor(pc.w.chain, *s.effective)
		}
		c.Fail("prune_restart_fails", "start_fails_after_"+kind+pc.shapeSuffix(f, prune), "%s: the restart with inputs %s fails: %s", what, s.cur, stableErr(r.runErr))
	}
	if m := checkStart(r, b, true); m != nil {
		failM(c, m, what+", restarted")
	}
	if s.effective == nil {
		c.Broken("%s: completed but the pruner never became durable", what)
	}
	eff := *s.effective
	want := pc.uninterrupted(eff, false, nil, nil)
	d := imageDiff(c, stripL1(s.img), stripL1(want))
	if d == nil {
		return
	}
	// classify: first the model checks (they name what is wrong), then the plain image difference
	pc.checkPruned(s.img, eff, b, what+", restarted", kind)
	c.Fail("prune_image_differs", "bucket_"+diffBuckets(c, stripL1(s.img), stripL1(want))+"_after_"+kind, "%s: final key-value image differs from the uninterrupted run with the inputs %s that were in force when the pruner first committed: %s", what, eff, *d)
}

// checkPruned: the model checks of a completed upgrade whose pruner ran with inputs in.
func (pc *pruneCase) checkPruned(img *memory.Database, in pIn, b binary, what, kind string) {
	c, w := pc.c, pc.w
	suffix := ""
	if kind != "" {
		suffix = "_after_" + kind
	}
	fail := func(m *mismatch) {
		m.key += suffix
		failM(c, m, what)
	}
	if m := checkFinished(img, b.target, false); m != nil {
		fail(m)
	}
	floor, prune := refFloor(w.chain, in)
	oldest, err := pruner.OldestRetainedBlock(img)
	switch {
	case len(w.chain) == 0:
		if !isNotFound(err) {
			fail(&mismatch{"prune_cutoff_moved", "empty_chain_has_retained_block", fmt.Sprintf("OldestRetainedBlock on an empty chain: %d, %v", oldest, err)})
		}
	case err != nil:
		fail(&mismatch{"prune_cutoff_moved", "oldest_retained_unreadable", fmt.Sprintf("OldestRetainedBlock: %v", err)})
	case oldest != floor:
		dir := "up"
		if oldest < floor {
			dir = "down"
		}
		fail(&mismatch{"prune_cutoff_moved", dir, fmt.Sprintf("oldest retained block is %d, the cutoff of the inputs %s in force when the pruner first committed is %d (prunes=%v)", oldest, in, floor, prune)})
	}
	k := &imgChecker{w: w, img: img, bc: pc.openBC(img)}
	res := func() (res *mismatch) {
		defer func() {
			if r := recover(); r != nil {
				sf, ok := r.(softFail)
				if !ok {
					panic(r)
				}
				res = &sf.m
			}
		}()
		h, err := k.bc.Height()
		if len(w.chain) == 0 {
			k.wantNotFound("Height(empty chain)", err)
		} else {
			k.eq("Height", uint64(len(w.chain)-1), h, err)
		}
		for i, blk := range w.chain {
			if uint64(i) >= floor {
				k.class = "prune_kept_block_incomplete"
				k.checkBlock(blk, true)
				k.checkByHash(blk)
			} else {
				k.checkPrunedBlock(blk)
			}
		}
		// historical state: from one block below the cutoff upwards exact; further below: an error or
		// the right answer
		for i := range w.chain {
			switch {
			case uint64(i)+1 >= floor:
				if uint64(i)+1 == floor || uint64(i) == floor || i == len(w.chain)-1 || i%7 == 3 {
					pc.checkStateAt(k, i, true)
				}
			case i%5 == 0 || uint64(i)+2 == floor:
				pc.checkStateAt(k, i, false)
			}
		}
		pc.checkHeadRoot(k)
		return nil
	}()
	c.Evals += k.evals
	if res != nil {
		fail(res)
	}
	// the next block can be stored
	if pc.next != nil {
		cp := img.Copy()
		bc := pc.openBC(cp)
		blk, su := node.CloneBlock(pc.next.B), node.CloneStateUpdate(pc.next.SU)
		comm, err := bc.SanityCheckNewHeight(blk, su, pc.next.Classes)
		if err == nil {
			err = bc.Store(blk, comm, su, pc.next.Classes)
		}
		c.Evals++
		if err != nil {
			fail(&mismatch{"prune_next_block_rejected", "store_failed", fmt.Sprintf("storing the next block %d on the pruned database failed: %v", pc.next.B.Number, err)})
		}
	}
}

// openBC opens the database the way a node running with --prune-mode does (node.New / Node.Run):
// the pruner's running-event-filter initializer and a retention floor seeded from the database.
func (pc *pruneCase) openBC(img *memory.Database) *blockchain.Blockchain {
	rf := &pruner.RetentionFloor{}
	pc.c.Must(rf.Seed(img), "seed retention floor")
	return blockchain.New(img, pc.w.net, blockchain.WithRetentionFloor(rf),
		blockchain.WithRunningEventFilterInitializer(pruner.InitializeRunningEventFilter))
}

func (k *imgChecker) checkByHash(b *chaingen.Block) {
	bc := k.bc
	hd, err := bc.BlockHeaderByHash(b.B.Hash)
	k.eq("BlockHeaderByHash", b.B.Header, hd, err)
	bn, err := bc.BlockNumberByHash(b.B.Hash)
	k.eq("BlockNumberByHash", b.B.Number, bn, err)
	su, err := bc.StateUpdateByHash(b.B.Hash)
	k.eq("StateUpdateByHash", b.SU, su, err)
	hh, err := bc.BlockHeaderHashByNumber(b.B.Number)
	k.eq("BlockHeaderHashByNumber", b.B.Hash, hh, err)
}

// okOrFail: below the cutoff an accessor fails or returns the complete stored value.
func (k *imgChecker) okOrFail(what string, want, got any, err error) {
	k.evals++
	if err != nil {
		return
	}
	if cw, cg := canon(want), canon(got); cw != cg {
		k.fail("prune_partial_below_cutoff", what, "%s of a block below the cutoff neither fails nor returns what was stored: %s", what, firstDiff(cw, cg))
	}
}

func (k *imgChecker) checkPrunedBlock(b *chaingen.Block) {
	bc, num := k.bc, b.B.Number
	blk, err := bc.BlockByNumber(num)
	k.okOrFail("BlockByNumber", b.B, blk, err)
	blk, err = bc.BlockByHash(b.B.Hash)
	k.okOrFail("BlockByHash", b.B, blk, err)
	hd, err := bc.BlockHeaderByNumber(num)
	k.okOrFail("BlockHeaderByNumber", b.B.Header, hd, err)
	hd, err = bc.BlockHeaderByHash(b.B.Hash)
	k.okOrFail("BlockHeaderByHash", b.B.Header, hd, err)
	bn, err := bc.BlockNumberByHash(b.B.Hash)
	k.okOrFail("BlockNumberByHash", num, bn, err)
	txs, err := bc.TransactionsByBlockNumber(num)
	k.okOrFail("TransactionsByBlockNumber", b.B.Transactions, txs, err)
	txs2, rcs2, err := bc.TransactionsAndReceiptsByBlockNumber(num)
	k.okOrFail("TransactionsAndReceiptsByBlockNumber.txs", b.B.Transactions, txs2, err)
	k.okOrFail("TransactionsAndReceiptsByBlockNumber.receipts", b.B.Receipts, rcs2, err)
	su, err := bc.StateUpdateByNumber(num)
	k.okOrFail("StateUpdateByNumber", b.SU, su, err)
	su, err = bc.StateUpdateByHash(b.B.Hash)
	k.okOrFail("StateUpdateByHash", b.SU, su, err)
	if comm, err := bc.BlockCommitmentsByNumber(num); err == nil {
		_, wantComm, herr := core.BlockHash(node.CloneBlock(b.B), b.SU.StateDiff, k.w.net, nil, core.DeprecatedTrieBackend)
		if herr != nil {
			panic(herr)
		}
		k.okOrFail("BlockCommitmentsByNumber", wantComm, comm, nil)
	}
	for i, tx := range b.B.Transactions {
		idx := uint64(i)
		got, err := bc.TransactionByHash(tx.Hash())
		k.okOrFail("TransactionByHash", tx, got, err)
		got, err = bc.TransactionByBlockNumberAndIndex(num, idx)
		k.okOrFail("TransactionByBlockNumberAndIndex", tx, got, err)
		gbn, gidx, err := bc.BlockNumberAndIndexByTxHash((*felt.TransactionHash)(tx.Hash()))
		k.okOrFail("BlockNumberAndIndexByTxHash", []uint64{num, idx}, []uint64{gbn, gidx}, err)
		grc, _, _, err := bc.Receipt(tx.Hash())
		k.okOrFail("Receipt", b.B.Receipts[i], grc, err)
		if l1, ok := tx.(*core.L1HandlerTransaction); ok {
			var mh [32]byte
			copy(mh[:], l1.MessageHash())
			gh, err := bc.L1HandlerTxnHash((*eth.Hash)(&mh))
			k.okOrFail("L1HandlerTxnHash", *tx.Hash(), gh, err)
		}
	}
	if evs, err := core.GetTransactionEventsByBlockNumber(k.img, num); err == nil {
		wantEvs := make([]core.TransactionEvents, len(b.B.Receipts))
		for i, r := range b.B.Receipts {
			wantEvs[i] = core.TransactionEvents{Events: r.Events, TransactionHash: r.TransactionHash}
		}
		k.okOrFail("GetTransactionEventsByBlockNumber", wantEvs, evs, nil)
	}
}

// checkStateAt: reads "as of block i" (by number and by hash, at the head also HeadState) against the
// abstract state after block i. strict=false (below cutoff-1): opening the reader or any read may
// fail, but an answer must be the right one.
func (pc *pruneCase) checkStateAt(k *imgChecker, i int, strict bool) {
	w := pc.w
	b := w.chain[i]
	post := b.Post
	class := "prune_state_wrong"
	if !strict {
		class = "prune_partial_below_cutoff"
	}
	type rd struct {
		name string
		r    core.StateReader
	}
	var readers []rd
	r1, c1, err := k.bc.StateAtBlockNumber(b.B.Number)
	k.evals++
	if err == nil {
		defer func() { _ = c1() }()
		readers = append(readers, rd{"StateAtBlockNumber", r1})
	} else if strict {
		k.fail(class, "StateAtBlockNumber", "StateAtBlockNumber(%d): %v", b.B.Number, err)
	}
	r2, c2, err := k.bc.StateAtBlockHash(b.B.Hash)
	k.evals++
	if err == nil {
		defer func() { _ = c2() }()
		readers = append(readers, rd{"StateAtBlockHash", r2})
	} else if strict {
		k.fail(class, "StateAtBlockHash", "StateAtBlockHash(block %d): %v", b.B.Number, err)
	}
	if i == len(w.chain)-1 {
		r3, c3, err := k.bc.HeadState()
		if err != nil {
			k.fail(class, "HeadState", "HeadState(): %v", err)
		}
		defer func() { _ = c3() }()
		readers = append(readers, rd{"HeadState", r3})
	}
	addrs := append(append([]felt.Felt(nil), w.gen.Addrs...), felt.One, felt.FromUint64[felt.Felt](2))
	for _, x := range readers {
		for _, a := range addrs {
			cm := post.Contracts[a]
			sys := refstate.IsSystem(&a)
			ch, err := x.r.ContractClassHash(&a)
			k.evals++
			switch {
			case cm != nil && !cm.System:
				if (err != nil && strict) || (err == nil && !ch.Equal(&cm.ClassHash)) {
					k.fail(class, x.name+".ContractClassHash", "%s@%d ContractClassHash(%s)=%s,%v want %s", x.name, b.B.Number, a.String(), ch.String(), err, cm.ClassHash.String())
				}
				nn, err := x.r.ContractNonce(&a)
				if (err != nil && strict) || (err == nil && !nn.Equal(&cm.Nonce)) {
					k.fail(class, x.name+".ContractNonce", "%s@%d ContractNonce(%s)=%s,%v want %s", x.name, b.B.Number, a.String(), nn.String(), err, cm.Nonce.String())
				}
			case cm == nil && !sys:
				if err == nil {
					k.fail(class, x.name+".ContractClassHash_absent", "%s@%d ContractClassHash(%s)=%s for a contract that does not exist at that block", x.name, b.B.Number, a.String(), ch.String())
				}
			}
			if cm == nil {
				continue
			}
			slots := pc.touched[a]
			if len(slots) > 5 {
				slots = slots[:5]
			}
			for _, s := range slots {
				want := cm.Storage[s]
				got, err := x.r.ContractStorage(&a, &s)
				k.evals++
				if (err != nil && strict) || (err == nil && !got.Equal(&want)) {
					k.fail(class, x.name+".ContractStorage", "%s@%d ContractStorage(%s,%s)=%s,%v want %s", x.name, b.B.Number, a.String(), s.String(), got.String(), err, want.String())
				}
			}
		}
	}
}

type commitmenter interface {
	Commitment(protocolVersion string) (felt.Felt, error)
}

// checkHeadRoot: the head state's tries still hash to the reference commitment.
func (pc *pruneCase) checkHeadRoot(k *imgChecker) {
	w := pc.w
	if len(w.chain) == 0 {
		return
	}
	head := w.chain[len(w.chain)-1]
	r, closer, err := k.bc.HeadState()
	if err != nil {
		k.fail("prune_state_wrong", "HeadState", "HeadState(): %v", err)
	}
	defer func() { _ = closer() }()
	ct, err := r.ContractTrie()
	if err != nil {
		k.fail("prune_state_wrong", "ContractTrie", "ContractTrie(): %v", err)
	}
	cr, err := ct.Hash()
	wantCR := head.Post.ContractRoot()
	k.evals++
	if err != nil || !cr.Equal(&wantCR) {
		k.fail("prune_state_wrong", "contract_trie_root", "contract trie root %s (%v) != reference %s", cr.String(), err, wantCR.String())
	}
	if cm, ok := r.(commitmenter); ok {
		want := head.Post.Commitment(head.Version)
		got, err := cm.Commitment(head.Version)
		k.evals++
		if err != nil || !got.Equal(&want) {
			k.fail("prune_state_wrong", "commitment", "Commitment() %s (%v) != reference %s", got.String(), err, want.String())
		}
	}
}
