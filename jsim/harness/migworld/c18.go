package migworld

import (
	"errors"
	"fmt"
	"runtime"
	"sort"
	"strings"

	"github.com/NethermindEth/juno/blockchain/networks"
	"github.com/NethermindEth/juno/db"
	"github.com/NethermindEth/juno/db/memory"
	"github.com/NethermindEth/juno/migration"

	"jsim/sim"
)

var networksSepolia = networks.Sepolia

// Classes of runs (one early draw). Kept apart so that a relaxation or a finding of one class never
// hides what another class decides.
const (
	clCancel    = iota // real migrators: context cancellation at database operations, restarts, flag flips
	clCrash            // real migrators: crash image after EVERY commit, recoveries, nested crashes
	clCommitErr        // real migrators: a commit returns an error
	clToy              // toy migrations: runner bookkeeping, every Migrate outcome except (nil, ctx err)
	clToyNilCtx        // toy migrations including (nil, ctx err): cancellation without intermediate state
	clBeyond           // a binary whose registry is shorter than a migration opted into but not yet applied
	// the real history-pruner migration (prune.go)
	clPruneCancel       // cancellation at database operations, restarts, inputs changed before the resume
	clPruneCrash        // crash image after EVERY commit, same inputs at the restart
	clPruneCrashChanged // crash image after every commit, inputs changed before the restart
	clPruneCommitErr    // a commit returns an error
	clReadErr           // real migrators: ONE transient read error during a start (readerr.go)
	clCross             // real registry: histories of starts under DIFFERENT configurations (cross.go)
	nClasses
)

var className = [...]string{"real/cancel", "real/crash", "real/commit-error", "toy", "toy/nil-ctxerr", "downgrade/opted-in-unapplied",
	"prune/cancel", "prune/crash", "prune/crash-changed-inputs", "prune/commit-error", "real/read-error", "cross/history"}

// C18 is one simulated run.
func C18(c *sim.Ctx) {
	t := c.T
	// weights: 0 must be the simplest class
	cls := [...]int{clCancel, clCrash, clCancel, clCrash, clCommitErr, clToy, clToy, clToyNilCtx, clBeyond, clCrash,
		clPruneCancel, clPruneCrash, clPruneCrashChanged, clPruneCommitErr, clPruneCancel, clPruneCrash,
		// appended (recorded tape words are normalised to the bound, so older replay files keep their class)
		clReadErr, clReadErr,
		clCross, clCross, clCross, clCross}[t.Draw("class", 22)]
	if only := c.Knobs["only"]; only != "" { // developer aid: JSIM_KNOB_only=<class name prefix>
		var sel []int
		for i, n := range className {
			if strings.HasPrefix(n, only) {
				sel = append(sel, i)
			}
		}
		if len(sel) > 0 {
			cls = sel[cls%len(sel)]
		}
	}
	e := &env{c: c, s: &sched{}}
	c.Logf("class %s gomaxprocs=%d", className[cls], runtime.GOMAXPROCS(0))
	defer e.reportShape()
	// the records of the previous release, decoded by the code under test (golden.go)
	if m := goldenSelfCheck(c); m != nil {
		e.misread = m
		c.Logf("a record written by the previous release is misread: %s", m.key)
	}
	switch cls {
	case clCancel, clCrash, clCommitErr, clReadErr:
		runReal(e, cls)
	case clToy, clToyNilCtx:
		runToy(e, cls == clToyNilCtx)
	case clBeyond:
		runBeyond(e)
	case clCross:
		runCross(e)
	default:
		runPrune(e, cls)
	}
}

// reportShape (deferred by C18) reports a registry-shape mismatch noted at some start of this run, or
// a record of the previous release that the code under test misreads (noted when the run began).
// The run is not cut short at the start that noted it: the binary goes on with the registry the
// node would really build, so that the behavioural oracles (which judge against the released bit
// assignment, a constant of the harness) can show what the shape does to a database; the first of
// them that fails is the run's violation. When none does - or when the harness's own machinery
// gives up because its world no longer fits the registry - the shape mismatch is the violation.
// Without a noted mismatch this function does nothing (it does not even recover).
func (e *env) reportShape() {
	noted, ctx := e.shape, "registry construction"
	if e.misread != nil { // noted first (when the run began)
		noted, ctx = e.misread, "records of the previous release"
	}
	if noted == nil {
		return
	}
	ended := "the run completed without a behavioural violation"
	if r := recover(); r != nil {
		if strings.HasSuffix(fmt.Sprintf("%T", r), ".violationPanic") {
			panic(r)
		}
		ended = fmt.Sprintf("the run then stopped with: %v", r)
	}
	failM(e.c, &mismatch{noted.class, noted.key, noted.detail + " (" + ended + ")"}, ctx)
}

func failM(c *sim.Ctx, m *mismatch, ctx string) {
	c.Fail(m.class, m.key, "%s: %s", ctx, m.detail)
}

// ---------------------------------------------------------------------------------------------
// real migrators

type realCase struct {
	e    *env
	w    *world
	f0   flags // flags of the first start
	fF   flags // flags of the last start (superset)
	seed uint64
	ref  *memory.Database // final image of the uninterrupted run with fF
	nOps int
	nCom int
	aux  func() *toy
}

func (rc *realCase) binary(f flags) binary {
	return binary{
		prod:     true,
		desc:     f.String(),
		target:   f.target(),
		nEntries: f.entries,
		build: func(rl *runLog, cancel func()) *migration.Registry {
			a := rc.aux()
			a.cancel = cancel
			return prodRegistry(rc.e, f, rl, a)
		},
	}
}

func drawWorld(e *env) *world {
	c, t := e.c, e.c.T
	w := &world{c: c, sdlCkpt: -1}
	n := blockCounts[t.Draw("blocks", len(blockCounts))]
	w.lay = layout(t.Draw("layout", 4))
	if t.Chance("layout.old", 1, 2) {
		w.lay = layoutOldTx
	}
	w.buildChain(n)
	switch w.lay {
	case layoutPartTx:
		if n <= batchSize {
			w.lay = layoutOldTx
		} else {
			w.pre = batchSize * (1 + t.Draw("pre.batches", (n-1)/batchSize))
		}
	case layoutPruned:
		if n >= 2 {
			w.floor = uint64(1 + t.Draw("floor", n-1))
		}
	}
	switch w.lay {
	case layoutOldTx:
		w.meta = []metaVariant{metaAbsent, metaZero, metaStarted, metaOptedMore}[t.Draw("meta", 4)]
	case layoutPartTx:
		w.meta = metaStarted
	default:
		w.meta = []metaVariant{metaExact, metaOptedMore}[t.Draw("meta", 2)]
	}
	if w.meta == metaOptedMore {
		w.optedAux = t.Chance("opted.aux", 1, 2)
		w.optedNewState = !w.optedAux || t.Chance("opted.newstate", 1, 3)
	}
	// an interrupted older state-diff-length run (checkpoint stored); on a pruned database the
	// checkpoint may lie below the floor (see buildBase)
	if (w.lay == layoutNewTx || w.lay == layoutPruned) && n > 0 && t.Chance("sdl.ckpt", 1, 3) {
		w.sdlCkpt = t.Draw("sdl.ckpt.block", n)
		if w.lay == layoutPruned && uint64(w.sdlCkpt) < w.floor {
			c.Probe("sdl_checkpoint_below_pruned_floor")
		}
	}
	w.golden = t.Chance("golden", 1, 2)
	e.golden = w.golden
	if w.golden {
		c.Probe("golden_records")
	}
	w.buildBase()
	return w
}

func runReal(e *env, cls int) {
	c, t := e.c, e.c.T
	w := drawWorld(e)
	rc := &realCase{e: e, w: w}
	rc.aux = func() *toy {
		return &toy{id: idxAux, units: 2, executed: map[outcome]int{}}
	}
	// flags: what the database already demands + tape choices; the last start has a superset
	need := flags{entries: nProd + 1, prune: w.lay == layoutPruned, aux: w.optedAux, newState: w.optedNewState}
	rc.f0 = need
	if t.Chance("f0.aux", 1, 3) {
		rc.f0.aux = true
	}
	if t.Chance("f0.newstate", 1, 4) {
		rc.f0.newState = true
	}
	rc.fF = rc.f0
	if t.Chance("fF.aux", 1, 3) {
		rc.fF.aux = true
	}
	if t.Chance("fF.newstate", 1, 4) {
		rc.fF.newState = true
	}
	rc.seed = t.U64("sched.seed")
	if t.Chance("sched.simple", 1, 4) {
		rc.seed = 0
	}
	nTx := 0
	for _, b := range w.chain {
		nTx += len(b.B.Transactions)
	}
	c.Sample = map[string]any{"class": className[cls], "blocks": len(w.chain), "txs": nTx, "layout": w.lay.String(), "floor": w.floor,
		"converted_prefix": w.pre, "leading_empty": w.leadEmpty, "trailing_empty": w.trailEmpty, "meta_variant": int(w.meta), "flags_first": rc.f0.String(), "flags_last": rc.fF.String(),
		"sdl_checkpoint": w.sdlCkpt, "golden_records": w.golden}
	c.Logf("world: %d blocks %d txs (empty: first %d, last %d) layout=%s floor=%d pre=%d meta=%d sdl-checkpoint=%d golden=%v f0=%s fF=%s", len(w.chain), nTx, w.leadEmpty, w.trailEmpty, w.lay, w.floor, w.pre, w.meta, w.sdlCkpt, w.golden, rc.f0, rc.fF)
	if len(w.chain) == 0 {
		c.Probe("zero_block_db")
	}
	if len(w.chain) == batchSize && w.lay == layoutOldTx {
		c.Probe("exactly_one_batch_db")
	}
	if w.lay == layoutPruned && w.floor > 0 {
		c.Probe("pruned_prefix")
	}
	for _, b := range w.chain {
		if len(b.B.Transactions) == 0 {
			c.Probe("empty_block")
			break
		}
	}

	// 1. the uninterrupted run (also the source of crash images)
	type image = crashImage
	var images []image
	refImg := w.base.Copy()
	in := inject{schedSeed: rc.seed, logOps: true, tag: "ref"}
	if cls == clCrash || cls == clReadErr {
		in.images = func(k int, info opInfo, _ int, img *memory.Database) {
			images = append(images, image{k: k, info: info, img: img})
		}
	}
	refAfter := map[int]*memory.Database{} // read-error class: the database right after migration i was recorded as applied
	if cls == clReadErr {
		in.onApplied = func(bit int, img *memory.Database) { refAfter[bit] = img.Copy() }
	}
	refBin := rc.binary(rc.fF)
	res := e.start(refImg, refBin, in)
	rc.nOps, rc.nCom = res.ops, res.commits
	c.Logf("ref: refused=%v err=%v ops=%d commits=%d applied=%b calls=%s", res.refused, res.runErr, res.ops, res.commits, res.post.CurrentVersion, callStr(res.rl))
	if res.refused != nil {
		c.Fail("cannot_finish", "refused_on_previous_layout", "a binary with flags %s refuses the previous-layout database: %v", rc.fF, res.refused)
	}
	if res.runErr != nil {
		c.Fail("cannot_finish", "uninterrupted_run_failed", "uninterrupted upgrade of a %s database failed: %v", w.lay, res.runErr)
	}
	if m := checkStart(res, refBin, true); m != nil {
		failM(c, m, "uninterrupted run")
	}
	rc.ref = refImg
	w.judgingUninterrupted = true
	rc.checkFinal(refImg, rc.fF, "uninterrupted run", "", false)
	w.judgingUninterrupted = false
	c.Evals++

	switch cls {
	case clCancel:
		rc.cancelClass()
	case clCrash:
		// 2. every crash image is recovered by a fresh binary
		sort.Slice(images, func(i, j int) bool { return images[i].k < images[j].k })
		nested := 0
		for _, im := range images {
			c.Fault("crash_after_commit")
			stage := "commit " + im.info.String()
			var inner []image
			rin := inject{schedSeed: mix(rc.seed, uint64(im.k)), tag: fmt.Sprintf("rec%d", im.k)}
			wantNested := nested < 3 && t.Chance("nested", 1, 6)
			if wantNested {
				rin.images = func(k int, info opInfo, _ int, img *memory.Database) {
					inner = append(inner, image{k: k, info: info, img: img})
				}
			}
			r := rc.finish(im.img, rc.fF, rin, fmt.Sprintf("crash after commit %d of %d (%s)", im.k, rc.nCom, stage), "crash")
			c.Logf("crash image %d/%d after %s: recovered ops=%d commits=%d", im.k, rc.nCom, im.info, r.ops, r.commits)
			if wantNested && len(inner) > 0 {
				nested++
				im2 := inner[t.Draw("nested.k", len(inner))]
				c.Fault("crash_after_commit")
				c.Probe("nested_crash")
				rc.finish(im2.img, rc.fF, inject{schedSeed: mix(rc.seed, uint64(im.k), uint64(im2.k)), tag: "rec2"},
					fmt.Sprintf("crash after commit %d, then crash after commit %d of the recovery", im.k, im2.k), "crash")
			}
		}
		rc.crashProbes(imagesInfo(images, func(i image) opInfo { return i.info }))
		c.Nontrivial = len(images) >= 3 && nTx > 0
	case clCommitErr:
		nk := 24
		if c.Tier == "thorough" {
			nk = 200
		}
		ks := pickPoints(t, "fail.k", rc.nCom, nk)
		for _, k := range ks {
			img := w.base.Copy()
			r := e.start(img, refBin, inject{schedSeed: rc.seed, failCommitAt: k, tag: fmt.Sprintf("fail%d", k)})
			c.Evals++
			if !r.failFired {
				c.Broken("commit %d of %d did not happen on the same schedule", k, rc.nCom)
			}
			c.Fault("commit_error")
			c.Logf("commit error at commit %d (%s): run err=%v applied=%b", k, r.failInfo, r.runErr != nil, r.post.CurrentVersion)
			if m := checkStart(r, refBin, false); m != nil {
				failM(c, m, fmt.Sprintf("start with a failing commit %d (%s)", k, r.failInfo))
			}
			if r.runErr == nil && r.post.CurrentVersion.Contains(refBin.target) {
				c.Fail("bookkeeping", "failed_commit_reported_as_success", "commit %d (%s) failed but the run reported a completed upgrade", k, r.failInfo)
			}
			rc.finish(img, rc.fF, inject{schedSeed: mix(rc.seed, 77, uint64(k)), tag: "retry"}, fmt.Sprintf("commit error at commit %d (%s), then restart", k, r.failInfo), "commit_error")
		}
		c.Nontrivial = len(ks) >= 3 && nTx > 0
	case clReadErr:
		sort.Slice(images, func(i, j int) bool { return images[i].k < images[j].k })
		rc.readErrClass(res, images, refAfter, nTx)
	}
	rc.downgrades(refImg, rc.fF, "completed database", false)
}

func imagesInfo[T any](xs []T, f func(T) opInfo) []opInfo {
	out := make([]opInfo, len(xs))
	for i, x := range xs {
		out[i] = f(x)
	}
	return out
}

func mix(a uint64, more ...uint64) uint64 {
	if a == 0 {
		return 0
	}
	h := a
	for _, m := range more {
		h ^= m + 0x9e3779b97f4a7c15 + (h << 6) + (h >> 2)
	}
	if h == 0 {
		h = 1
	}
	return h
}

func callStr(rl *runLog) string {
	s := ""
	for _, k := range rl.calls {
		if k.before {
			continue
		}
		s += fmt.Sprintf("%d%s ", k.idx, k.outcome())
	}
	return s
}

func pickPointsFull(t interface {
	Draw(string, int) int
}, label string, n, full, sample int) []int {
	if n <= full {
		return pickPoints(t, label, n, n)
	}
	return pickPoints(t, label, n, sample)
}

// pickPoints: all of 1..n when n <= max, else the first, the last and tape-chosen others.
func pickPoints(t interface {
	Draw(string, int) int
}, label string, n, max int) []int {
	if n <= 0 {
		return nil
	}
	if n <= max {
		out := make([]int, n)
		for i := range out {
			out[i] = i + 1
		}
		return out
	}
	set := map[int]bool{1: true, n: true, n - 1: true, 2: true}
	// bounded: an exhausted tape answers 0 forever
	for tries := 0; len(set) < max && tries < 3*max; tries++ {
		set[1+t.Draw(label, n)] = true
	}
	for i := 0; i < max && len(set) < max; i++ {
		set[1+i*(n-1)/(max-1)] = true
	}
	out := make([]int, 0, len(set))
	for k := range set {
		out = append(out, k)
	}
	sort.Ints(out)
	return out
}

// checkFinal: a completed upgrade holds the pre-migration content, empty old buckets, clean
// bookkeeping, and (unless it IS the uninterrupted run) the uninterrupted run's key-value image.
func (rc *realCase) checkFinal(img *memory.Database, f flags, what, kind string, compare bool) {
	c := rc.e.c
	var d *string
	if compare {
		// the uninterrupted run's image has passed every check below: an identical image needs none
		if d = imageDiff(c, img, rc.ref); d == nil {
			return
		}
	}
	suffix := ""
	if kind != "" {
		suffix = "_after_" + kind
	}
	if m := checkFinished(img, f.target(), true); m != nil {
		m.key += suffix
		failM(c, m, what)
	}
	m, ev := checkData(rc.w, img, true)
	c.Evals += ev
	if m != nil {
		m.key += suffix
		failM(c, m, what)
	}
	if d != nil {
		c.Fail("final_image_differs", "bucket_"+diffBuckets(c, img, rc.ref)+suffix, "%s: final key-value image differs from the uninterrupted run's: %s", what, *d)
	}
}

// crashImage is the database right after commit k of a start.
type crashImage struct {
	k    int
	info opInfo
	img  *memory.Database
	mig  int
}

// finish: fault-free starts of the binary with flags f until the upgrade completes; then the final
// checks. A healthy database needs exactly one start.
func (rc *realCase) finish(img *memory.Database, f flags, in inject, what, kind string) *startRes {
	c := rc.e.c
	b := rc.binary(f)
	r := rc.e.start(img, b, in)
	c.Evals++
	return rc.judgeHealthy(r, b, img, f, what, kind)
}

// judgeHealthy: the oracle of a start that suffered no fault.
func (rc *realCase) judgeHealthy(r *startRes, b binary, img *memory.Database, f flags, what, kind string) *startRes {
	c := rc.e.c
	if r.capped {
		c.Inconclusive++
		c.Logf("%s: step cap", what)
		return r
	}
	if r.refused != nil {
		c.Fail("cannot_finish", "restart_refused_after_"+kind, "%s: the same binary (flags %s) is refused: %v", what, f, r.refused)
	}
	if r.runErr != nil {
		c.Fail("cannot_finish", "restart_fails_after_"+kind, "%s: the restarted upgrade fails: %v", what, r.runErr)
	}
	if m := checkStart(r, b, true); m != nil {
		failM(c, m, what+", restarted")
	}
	if f == rc.fF {
		rc.checkFinal(img, f, what+", restarted", kind, true)
	}
	return r
}

func (rc *realCase) crashProbes(infos []opInfo) {
	c := rc.e.c
	for i, o := range infos {
		meta := func(x opInfo) bool {
			return x.bucket == byte(db.SchemaMetadata) || x.bucket == byte(db.SchemaIntermediateState)
		}
		// a data commit directly followed (in commit order) by the runner's "applied" batch
		if !meta(o) && i+1 < len(infos) && infos[i+1].nops == 2 && infos[i+1].bucket == byte(db.SchemaMetadata) {
			c.Probe("crash_between_last_data_batch_and_metadata")
		}
	}
}

// cancelClass: cancellation at database operations of the uninterrupted schedule, any number of
// restarts (each possibly cancelled again), optional flags switched on between restarts, attempts
// to switch one off.
func (rc *realCase) cancelClass() {
	e, c, t := rc.e, rc.e.c, rc.e.c.T
	// every operation of the uninterrupted schedule when it is short, a tape-chosen sample (always
	// including the first two and the last two) otherwise
	full, sample := 60, 20
	if c.Tier == "thorough" {
		full, sample = 150, 48
	}
	points := pickPointsFull(t, "cancel.j", rc.nOps+1, full, sample)
	stages := map[string]bool{}
	resumedWithState := false
	for _, j := range points {
		img := rc.w.base.Copy()
		f := rc.f0
		first := rc.binary(rc.fF) // the first start runs the uninterrupted run's schedule, so j is a point of it
		r := e.start(img, first, inject{schedSeed: rc.seed, cancelAtOp: j, tag: fmt.Sprintf("cancel%d", j)})
		f = rc.fF
		c.Evals++
		if !r.cancelFired {
			// j = nOps+1: never reached; the run completed
			if r.runErr != nil {
				c.Broken("cancel point %d beyond the run but the run failed: %v", j, r.runErr)
			}
		} else {
			c.Fault("ctx_cancel_at_op")
			stages[r.cancelStage] = true
			c.Probe("cancel_at_" + r.cancelStage)
		}
		// Only the cancellation POINT is logged. What the cancelled start still does is decided by Go's
		// select in pipeline.Source when the context is already cancelled and a worker is ready to
		// receive (runtime-random); every outcome must satisfy the oracles, none is part of the trace.
		c.Logf("cancel at op %d (%s, %s)", j, r.cancelStage, r.cancelInfo)
		if m := checkStart(r, first, false); m != nil {
			failM(c, m, fmt.Sprintf("start cancelled at operation %d (%s: %s)", j, r.cancelStage, r.cancelInfo))
		}
		if r.runErr != nil && r.ctxErrAtEnd != nil && !errors.Is(r.runErr, r.ctxErrAtEnd) {
			c.Fail("cannot_finish", "cancelled_run_reports_other_error", "start cancelled at operation %d (%s) returned a non-cancellation error: %v", j, r.cancelStage, r.runErr)
		}
		// further cancelled restarts
		nMore := t.Draw("cancel.more", 3)
		for i := 0; i < nMore; i++ {
			j2 := 1 + t.Draw("cancel.j2", rc.nOps+1)
			b := rc.binary(f)
			r2 := e.start(img, b, inject{schedSeed: mix(rc.seed, uint64(j), uint64(i)), cancelAtOp: j2, tag: "recancel"})
			c.Evals++
			c.Fault("restart")
			if r2.refused != nil {
				c.Fail("cannot_finish", "restart_refused_after_cancel", "restart %d after a cancellation at operation %d is refused: %v", i+1, j, r2.refused)
			}
			if r2.cancelFired {
				c.Fault("ctx_cancel_at_op")
				c.Probe("cancel_at_" + r2.cancelStage)
			}
			if len(r2.preStates) > 0 && len(r2.rl.calls) > 0 {
				resumedWithState = true
			}
			if m := checkStart(r2, b, false); m != nil {
				failM(c, m, fmt.Sprintf("restart cancelled at its operation %d (%s) after a cancellation at operation %d", j2, r2.cancelStage, j))
			}
		}
		in := inject{schedSeed: mix(rc.seed, uint64(j), 99), tag: "resume"}
		pre := readStates(c, img, maxEntries)
		rf := rc.finish(img, f, in, fmt.Sprintf("cancellation at operation %d (%s: %s) and %d more cancelled restarts", j, r.cancelStage, r.cancelInfo, nMore), "cancel")
		c.Fault("restart")
		if len(pre) > 0 && len(rf.rl.calls) > 0 {
			resumedWithState = true
		}
	}
	if resumedWithState {
		c.Probe("resume_with_intermediate_state")
	}
	// flag flips: start with the smaller flag set, get cancelled, come back with more flags, try to drop one
	if rc.f0 != rc.fF || t.Chance("flip.anyway", 1, 2) {
		img := rc.w.base.Copy()
		j := 1 + t.Draw("flip.j", rc.nOps+1)
		b0 := rc.binary(rc.f0)
		r := e.start(img, b0, inject{schedSeed: rc.seed, cancelAtOp: j, tag: "flip0"})
		c.Evals++
		if r.refused != nil {
			c.Fail("cannot_finish", "refused_on_previous_layout", "a binary with flags %s refuses the previous-layout database: %v", rc.f0, r.refused)
		}
		if r.cancelFired {
			c.Fault("ctx_cancel_at_op")
		}
		if m := checkStart(r, b0, false); m != nil {
			failM(c, m, fmt.Sprintf("start with flags %s cancelled at operation %d", rc.f0, j))
		}
		if rc.f0 != rc.fF {
			c.Fault("optional_flag_flip")
			c.Probe("flag_enabled_between_restarts")
		}
		rc.downgrades(img, rc.f0, "interrupted database", true)
		rc.finish(img, rc.fF, inject{schedSeed: mix(rc.seed, 5), tag: "flipF"}, fmt.Sprintf("start with flags %s cancelled at operation %d, restart with flags %s", rc.f0, j, rc.fF), "flag_flip")
		c.Fault("restart")
	}
	c.Nontrivial = len(stages) >= 2 && len(rc.w.chain) > 0
}

// downgrades: binaries that lack a migration the database has applied or opted into must be
// refused; the refusal must leave the database untouched. (The case "registry shorter than an
// opted-in but not yet applied migration" is decided in its own class, see runBeyond.)
func (rc *realCase) downgrades(img *memory.Database, have flags, what string, quiet bool) {
	e, c, t := rc.e, rc.e.c, rc.e.c.T
	if e.golden {
		transcodeToReleased(c, img, true) // what the refused binary finds (e.start does the same to its copy)
	}
	md := readMeta(c, img)
	var cands []flags
	for _, drop := range []string{"aux", "newstate", "prune"} {
		f := have
		switch drop {
		case "aux":
			f.aux = false
		case "newstate":
			f.newState = false
		case "prune":
			f.prune = false
		}
		if f != have {
			cands = append(cands, f)
		}
	}
	for n := 0; n < have.entries; n++ {
		f := have
		f.entries = n
		cands = append(cands, f)
	}
	if len(cands) == 0 {
		return
	}
	nTry := 1 + t.Draw("downgrade.n", 3)
	for i := 0; i < nTry; i++ {
		f := cands[t.Draw("downgrade.pick", len(cands))]
		tgt := f.target()
		lacksApplied := md.CurrentVersion.Difference(tgt) != 0
		lacksOpted := md.LastTargetVersion.Difference(tgt) != 0
		beyond := false
		for i := range md.LastTargetVersion.Difference(md.CurrentVersion).Iter() {
			if int(i) >= f.entries {
				beyond = true
			}
		}
		if beyond && !lacksApplied {
			continue // decided by the class downgrade/opted-in-unapplied
		}
		cp := img.Copy()
		r := e.start(cp, rc.binary(f), inject{schedSeed: 0, tag: "downgrade", transcoded: true})
		c.Evals++
		if quiet {
			c.Logf("%s: binary %s tried", what, f)
		} else {
			c.Logf("%s: binary %s: refused=%v (lacks applied=%v, lacks opted-in=%v)", what, f, r.refused != nil, lacksApplied, lacksOpted)
		}
		if lacksApplied || lacksOpted {
			c.Fault("downgrade_binary")
			if r.refused == nil {
				kind := "opted_in_optional_disabled"
				if lacksApplied {
					kind = "applied_migration_missing"
				}
				c.Fail("downgrade_not_refused", kind, "%s (applied=%b last target=%b): a binary with %s (target=%b) was not refused", what, md.CurrentVersion, md.LastTargetVersion, f, tgt)
			}
			if d := imageDiff(c, cp, img); d != nil {
				c.Fail("downgrade_not_refused", "refused_open_modified_database", "%s: refused binary %s modified the database: %s", what, f, *d)
			}
			c.Probe("downgrade_refused")
		}
	}
}

// ---------------------------------------------------------------------------------------------
// class downgrade/opted-in-unapplied

// runBeyond: a newer binary opts into an optional migration that is the LAST entry of its registry
// and is interrupted before the migration completes; then an older binary, whose registry does not
// contain that entry at all, opens the database. The property demands a refusal.
func runBeyond(e *env) {
	c, t := e.c, e.c.T
	w := &world{c: c, lay: layoutNewTx, meta: metaExact, sdlCkpt: -1}
	w.buildChain([]int{0, 1, 3}[t.Draw("blocks", 3)])
	w.golden = t.Chance("golden", 1, 2)
	e.golden = w.golden
	w.buildBase()
	rc := &realCase{e: e, w: w}
	units := 2 + t.Draw("aux.units", 3)
	rc.aux = func() *toy { return &toy{id: idxAux, units: units, executed: map[outcome]int{}} }
	newer := flags{entries: nProd + 1, aux: true}
	c.Sample = map[string]any{"class": className[clBeyond], "blocks": len(w.chain)}
	// the newer binary: find the schedule length, then cancel inside the aux migration
	probe := e.start(w.base.Copy(), rc.binary(newer), inject{tag: "probe"})
	if probe.runErr != nil || probe.refused != nil {
		c.Fail("cannot_finish", "uninterrupted_run_failed", "uninterrupted upgrade failed: %v %v", probe.refused, probe.runErr)
	}
	// cancellation points inside the aux migration (or at the runner's read of its resume token just
	// before): everything earlier has completed, so the outcome does not depend on a pipeline
	firstAux := 0
	for i, st := range probe.stages {
		if st == fmt.Sprintf("toy%d", idxAux) {
			firstAux = i + 1
			break
		}
	}
	if firstAux < 2 {
		c.Broken("aux migration issued no database operation")
	}
	img := w.base.Copy()
	var r *startRes
	for j := probe.ops; j >= firstAux-1; j-- { // last cancellation point that leaves aux unapplied
		cand := w.base.Copy()
		nb := rc.binary(newer)
		rr := e.start(cand, nb, inject{cancelAtOp: j, tag: "newer"})
		c.Evals++
		if m := checkStart(rr, nb, false); m != nil {
			failM(c, m, fmt.Sprintf("newer binary cancelled at operation %d (%s)", j, rr.cancelStage))
		}
		if !rr.post.CurrentVersion.Has(idxAux) {
			back := t.Draw("beyond.back", 3)
			if back > 0 && j-back >= firstAux-1 {
				cand = w.base.Copy()
				rr = e.start(cand, rc.binary(newer), inject{cancelAtOp: j - back, tag: "newer"})
			}
			img, r = cand, rr
			break
		}
	}
	if r == nil {
		c.Broken("no cancellation point leaves the last migration unapplied")
	}
	c.Fault("ctx_cancel_at_op")
	md := readMeta(c, img)
	c.Logf("newer binary %s interrupted: applied=%b last target=%b states=%d", newer, md.CurrentVersion, md.LastTargetVersion, len(readStates(c, img, maxEntries)))
	if !md.LastTargetVersion.Has(idxAux) || md.CurrentVersion.Has(idxAux) {
		c.Broken("setup: aux should be opted into and not applied (applied=%b last=%b)", md.CurrentVersion, md.LastTargetVersion)
	}
	older := flags{entries: nProd}
	cp := img.Copy()
	r2 := e.start(cp, rc.binary(older), inject{tag: "older"})
	c.Evals++
	c.Fault("downgrade_binary")
	c.Nontrivial = true
	c.Logf("older binary %s: refused=%v run err=%v", older, r2.refused != nil, r2.runErr)
	if r2.refused == nil {
		md2 := readMeta(c, cp)
		c.Fail("downgrade_not_refused", "opted_in_unapplied_migration_beyond_registry",
			"database with applied=%b last target=%b (optional migration %d opted into by a newer binary, interrupted before completion, resume token stored=%v): a binary whose registry has only %d entries was NOT refused; its run returned %v and rewrote last target to %b",
			md.CurrentVersion, md.LastTargetVersion, idxAux, len(readStates(c, img, maxEntries)) > 0, nProd, r2.runErr, md2.LastTargetVersion)
	}
	c.Probe("downgrade_refused")
}

// ---------------------------------------------------------------------------------------------
// toy migrations: the runner's bookkeeping

type toySpec struct {
	units       int
	optional    bool
	script      []outcome
	wrap        bool
	nilOnCancel bool
}

func runToy(e *env, withNilCtx bool) {
	c, t := e.c, e.c.T
	n := 1 + t.Draw("toys", 5)
	specs := make([]toySpec, n)
	allowed := []outcome{outFinish, outPartial, outCancelState, outFailNil, outFailState, outFailDeadline, outFailCanceled}
	if withNilCtx {
		allowed = append(allowed, outCancelNil)
	}
	for i := range specs {
		s := &specs[i]
		s.units = 1 + t.Draw("toy.units", 4)
		s.optional = t.Chance("toy.optional", 1, 3)
		s.wrap = t.Chance("toy.wrap", 1, 3)
		if withNilCtx {
			s.nilOnCancel = t.Chance("toy.nil_on_cancel", 1, 2)
		}
		for k := t.Draw("toy.script", 4); k > 0; k-- {
			s.script = append(s.script, allowed[t.Draw("toy.outcome", len(allowed))])
		}
	}
	// persistent script positions ("the environment"), per toy
	pos := make([]int, n)
	executed := map[outcome]int{}
	enabled := make([]bool, n)
	for i := range specs {
		enabled[i] = !specs[i].optional || t.Chance("toy.enabled0", 1, 2)
	}
	mkBinary := func(en []bool, entries int, scripted bool) binary {
		en = append([]bool(nil), en...)
		var tgt migration.SchemaVersion
		for i := 0; i < entries; i++ {
			if en[i] {
				tgt.Set(uint8(i))
			}
		}
		return binary{
			desc: fmt.Sprintf("toys enabled=%v entries=%d", en, entries), target: tgt, nEntries: entries,
			build: func(rl *runLog, cancel func()) *migration.Registry {
				r := migration.NewRegistry()
				for i := 0; i < entries; i++ {
					s := specs[i]
					ty := &toy{id: i, units: s.units, wrap: s.wrap, nilOnCancel: s.nilOnCancel, cancel: cancel, executed: executed}
					if scripted {
						ty.script, ty.pos = s.script, &pos[i]
					}
					m := &recMig{inner: ty, idx: i, rl: rl}
					if s.optional {
						r.WithOptional(m, en[i], fmt.Sprintf("toy-%d", i))
					} else {
						r.With(m)
					}
				}
				return r
			},
		}
	}
	defer func() {
		for o := outcome(0); o < nOutcomes; o++ {
			if executed[o] > 0 {
				c.Probe("toy_outcome_" + o.String())
			}
		}
	}()
	c.Sample = map[string]any{"class": className[clToy], "toys": fmt.Sprintf("%+v", specs), "with_nil_ctxerr": withNilCtx}
	c.Logf("toys: %+v enabled=%v", specs, enabled)

	img := memory.New()
	e.golden = t.Chance("golden", 1, 2)
	if t.Chance("toy.meta_zero", 1, 3) {
		putMeta(c, img, migration.SchemaMetadata{}, e.golden)
	}
	type image struct {
		img *memory.Database
		en  []bool
		k   int
	}
	var images []image
	totalScript := 0
	for _, s := range specs {
		totalScript += len(s.script)
	}
	faulty := 2 + t.Draw("toy.faulty_starts", 5)
	finished := false
	for st := 0; st < faulty+totalScript+3; st++ {
		// flags may only grow
		for i := range specs {
			if specs[i].optional && !enabled[i] && t.Chance("toy.enable", 1, 4) {
				enabled[i] = true
				c.Fault("optional_flag_flip")
			}
		}
		b := mkBinary(enabled, n, true)
		in := inject{tag: fmt.Sprintf("start%d", st), logOps: true}
		ff := true
		if st < faulty {
			switch t.Draw("toy.fault", 4) {
			case 1:
				in.cancelAtOp = 1 + t.Draw("toy.cancel.j", 14)
				ff = false
			case 2:
				in.failCommitAt = 1 + t.Draw("toy.fail.k", 8)
				ff = false
			}
		}
		en := append([]bool(nil), enabled...)
		in.images = func(k int, info opInfo, _ int, cp *memory.Database) {
			if len(images) < 40 {
				images = append(images, image{img: cp, en: en, k: k})
			}
		}
		r := e.start(img, b, in)
		c.Evals++
		if st > 0 {
			c.Fault("restart")
		}
		if r.cancelFired {
			c.Fault("ctx_cancel_at_op")
			c.Probe("cancel_at_" + r.cancelStage)
		}
		if r.failFired {
			c.Fault("commit_error")
		}
		c.Logf("start %d: refused=%v err=%v applied=%b calls=%s", st, r.refused, r.runErr, r.post.CurrentVersion, callStr(r.rl))
		if r.refused != nil {
			c.Fail("cannot_finish", "restart_refused", "start %d with flags %v is refused: %v", st, enabled, r.refused)
		}
		if m := checkStart(r, b, ff); m != nil {
			failM(c, m, fmt.Sprintf("start %d (%s)", st, callStr(r.rl)))
		}
		if len(r.preStates) > 0 && len(r.rl.calls) > 0 {
			c.Probe("resume_with_intermediate_state")
		}
		// opt-out attempt on the live database
		if t.Chance("toy.optout", 1, 4) {
			rcToyDowngrade(e, img, specs, enabled, mkBinary)
		}
		if ff && r.runErr == nil && r.post.CurrentVersion.Contains(b.target) {
			finished = true
			break
		}
	}
	if !finished {
		c.Fail("cannot_finish", "toy_upgrade_never_completes", "after %d starts (the last %d without injected faults, scripts exhausted) the upgrade is still incomplete: applied=%b", faulty+totalScript+3, totalScript+3, readMeta(c, img).CurrentVersion)
	}
	if m := checkToyFinal(img, specs, enabled); m != nil {
		failM(c, m, "completed toy upgrade")
	}
	// crash images: a fresh, unscripted binary must complete each of them
	for _, im := range images {
		c.Fault("crash_after_commit")
		cp := im.img
		b := mkBinary(im.en, n, false)
		done := false
		for tries := 0; tries < 2 && !done; tries++ {
			r := e.start(cp, b, inject{tag: "toyrec"})
			c.Evals++
			if r.refused != nil || r.runErr != nil {
				c.Fail("cannot_finish", "restart_fails_after_crash", "crash image (commit %d): restart refused=%v err=%v", im.k, r.refused, r.runErr)
			}
			if m := checkStart(r, b, true); m != nil {
				failM(c, m, fmt.Sprintf("recovery of the crash image after commit %d", im.k))
			}
			done = r.post.CurrentVersion.Contains(b.target)
		}
		if m := checkToyFinal(cp, specs, im.en); m != nil {
			failM(c, m, fmt.Sprintf("recovery of the crash image after commit %d", im.k))
		}
	}
	nExec := 0
	for o, k := range executed {
		if o != outFinish {
			nExec += k
		}
	}
	c.Nontrivial = nExec > 0
}

func rcToyDowngrade(e *env, img *memory.Database, specs []toySpec, enabled []bool, mk func([]bool, int, bool) binary) {
	c, t := e.c, e.c.T
	if e.golden {
		transcodeToReleased(c, img, false)
	}
	md := readMeta(c, img)
	en := append([]bool(nil), enabled...)
	entries := len(specs)
	if t.Chance("toy.truncate", 1, 2) {
		entries = t.Draw("toy.entries", len(specs))
	} else {
		i := t.Draw("toy.drop", len(specs))
		if !specs[i].optional || !en[i] {
			return
		}
		en[i] = false
	}
	b := mk(en, entries, false)
	lacksApplied := md.CurrentVersion.Difference(b.target) != 0
	lacksOpted := md.LastTargetVersion.Difference(b.target) != 0
	for i := range md.LastTargetVersion.Difference(md.CurrentVersion).Iter() {
		if int(i) >= entries && !lacksApplied {
			return // decided by the class downgrade/opted-in-unapplied
		}
	}
	if !lacksApplied && !lacksOpted {
		return
	}
	cp := img.Copy()
	r := e.start(cp, b, inject{tag: "downgrade", transcoded: true})
	c.Evals++
	c.Fault("downgrade_binary")
	c.Logf("downgrade %s: refused=%v", b.desc, r.refused != nil)
	if r.refused == nil {
		kind := "opted_in_optional_disabled"
		if lacksApplied {
			kind = "applied_migration_missing"
		}
		c.Fail("downgrade_not_refused", kind, "applied=%b last target=%b: binary %s (target=%b) was not refused", md.CurrentVersion, md.LastTargetVersion, b.desc, b.target)
	}
	if d := imageDiff(c, cp, img); d != nil {
		c.Fail("downgrade_not_refused", "refused_open_modified_database", "refused binary %s modified the database: %s", b.desc, *d)
	}
	c.Probe("downgrade_refused")
}

func checkToyFinal(img *memory.Database, specs []toySpec, enabled []bool) *mismatch {
	var tgt migration.SchemaVersion
	for i := range specs {
		if enabled[i] {
			tgt.Set(uint8(i))
		}
	}
	if m := checkFinished(img, tgt, false); m != nil {
		return m
	}
	for i, s := range specs {
		for u := 0; u < s.units; u++ {
			has, _ := img.Has(toyKey(i, u))
			if enabled[i] && !has {
				return &mismatch{"data_lost", "toy_work_missing_after_completed_upgrade", fmt.Sprintf("toy migration %d is recorded as applied but its unit %d of %d was never written", i, u, s.units)}
			}
			if !enabled[i] && has {
				return &mismatch{"order", "disabled_migration_ran", fmt.Sprintf("toy migration %d is disabled but wrote unit %d", i, u)}
			}
		}
	}
	return nil
}
