package migworld

import (
	"bytes"
	"context"
	"fmt"
	"strings"
	"testing/synctest"

	"github.com/NethermindEth/juno/db"
	"github.com/NethermindEth/juno/db/memory"
	"github.com/NethermindEth/juno/migration"
	"github.com/NethermindEth/juno/utils/log"

	"jsim/faultdb"
	"jsim/sim"
)

// prng: splitmix64, seeded from ONE tape word; seed 0 always answers 0 (the simplest schedule).
type prng struct{ s uint64 }

func (p *prng) next() uint64 {
	p.s += 0x9e3779b97f4a7c15
	z := p.s
	z = (z ^ (z >> 30)) * 0xbf58476d1ce4e5b9
	z = (z ^ (z >> 27)) * 0x94d049bb133111eb
	return z ^ (z >> 31)
}

func chooser(seed uint64) func(int) int {
	if seed == 0 {
		return func(int) int { return 0 }
	}
	p := &prng{s: seed}
	return func(n int) int { return int(p.next() % uint64(n)) }
}

// binary is one executable version + command line: a registry builder and its target.
type binary struct {
	prod     bool // the registry is the node's (resume tokens at the released positions belong to the released migrations)
	desc     string
	build    func(rl *runLog, cancel func()) *migration.Registry
	target   migration.SchemaVersion
	nEntries int
}

// inject is what one start suffers.
type inject struct {
	cancelAtOp   int
	failCommitAt int
	schedSeed    uint64
	images       func(k int, info opInfo, mig int, img *memory.Database) // crash image after every commit (mig: migration executing)
	logOps       bool
	tag          string
	readErr      *readTarget                         // one transient read error (class real/read-error)
	onApplied    func(bit int, img *memory.Database) // root: right after the runner's commit that set an applied bit (img is live: read only)
	// faults named by CONTENT (class cross/history: the schedule of a start that follows a cancelled start
	// is not a function of the tape, so operation numbers cannot name a point of it)
	cancelIn *opTarget // cancel the context just before that operation executes
	failIn   *opTarget // that commit returns an error, nothing applied
	crashIn  *opTarget // the process dies right after that commit: startRes.crashImg is the database it leaves
	// golden runs: the caller has already put the bookkeeping records into the previous release's encoding
	// (a start that must leave the database untouched is compared with the image it was given)
	transcoded bool
}

// opTarget names one database operation of a start: the ord-th (0-based) operation - or, with commits
// set, the ord-th commit - issued while migration mig executes (-1: by the runner itself).
type opTarget struct {
	mig, ord int
	commits  bool
}

func (t *opTarget) String() string {
	what := "operation"
	if t.commits {
		what = "commit"
	}
	return fmt.Sprintf("%s #%d of migration %d", what, t.ord, t.mig)
}

// readTarget names the read that fails by CONTENT: the ord-th (0-based) scheduled read of this start
// whose pipeline stage is `stage`; mode/nth as in readFault.
type readTarget struct {
	stage string
	ord   int
	mode  int
	nth   int
	byMig bool // name the read by the migration executing (mig) instead of by the stage
	mig   int
}

// startRes is the observable outcome of one binary start (NewRunner + Run).
type startRes struct {
	refused           error
	runErr            error
	rl                *runLog
	pre, post         migration.SchemaMetadata
	preStates         map[int][]byte
	postStates        map[int][]byte
	ops               int
	commits           int
	cancelFired       bool
	cancelInfo        opInfo
	cancelStage       string
	failFired         bool
	failInfo          opInfo
	ctxErrAtEnd       error
	capped            bool
	stages            []string          // stage of every released operation (index j-1)
	migCommits        map[int]int       // applied commits by the migration that was executing (-1: the runner)
	readStages        map[string]int    // scheduled reads (other than snapshots) per stage
	readNames         map[string]string // name of the first scheduled read of every stage
	readArmed         bool              // the targeted read was scheduled
	readArmedAt       int               // its operation number
	readInfo          opInfo            // what it was
	readFired         bool              // ... and the error reached the code under test
	readHow           string            // get has iter_open iter_value iter_stop
	opMig             []int             // migration executing when operation j was released (index j-1; -1: the runner)
	crashImg          *memory.Database  // inject.crashIn: the database right after the targeted commit (nil: the commit never happened)
	crashInfo         opInfo
	crashPruneCommits int // commits of the history pruner applied up to and including that commit
}

type env struct {
	c *sim.Ctx
	s *sched
	// first mismatch between the registry the node builds and the released schema noted in this run
	// (migs.go: registryShape; reported by C18 when the run ends)
	shape *mismatch
	// first golden record the code under test reads differently from the values it was made from
	// (golden.go: goldenSelfCheck; reported by C18 when the run ends unless a behavioural oracle speaks first)
	misread *mismatch
	// golden run: the bookkeeping records of the pre-migration database are the literal bytes of the
	// previous release, and every start finds them in that encoding (transcodeToReleased)
	golden bool
}

func readStates(c *sim.Ctx, r db.KeyValueReader, n int) map[int][]byte {
	out := map[int][]byte{}
	for i := 0; i < n; i++ {
		// a record under the released key is there whatever the code under test makes of it
		if raw, found, err := rawGet(r, relStateKey(i)); err != nil {
			c.Broken("read intermediate state %d: %v", i, err)
		} else if found {
			out[i] = raw
			continue
		}
		st, err := migration.GetIntermediateState(r, uint8(i))
		if err != nil {
			if isNotFound(err) {
				continue
			}
			c.Broken("read intermediate state %d: %v", i, err)
		}
		if st == nil {
			st = []byte{}
		}
		out[i] = st
	}
	return out
}

const maxEntries = 12

// start runs one binary on img (in place) under the scheduler.
func (e *env) start(img *memory.Database, b binary, in inject) *startRes {
	c := e.c
	res := &startRes{rl: &runLog{active: -1, sch: e.s}}
	if e.golden && !in.transcoded {
		// every bookkeeping record this start finds is in the encoding of the previous release
		transcodeToReleased(c, img, b.prod)
	}
	res.pre = readMeta(c, img)
	res.preStates = readStates(c, img, maxEntries)
	ctx, cancel := context.WithCancel(context.Background())
	defer func() {
		cancel()
		synctest.Wait()
	}()
	reg := b.build(res.rl, cancel)
	store := &sdb{inner: img, s: e.s}
	p := plan{
		cancelAtOp:   in.cancelAtOp,
		cancel:       cancel,
		failCommitAt: in.failCommitAt,
		choose:       chooser(in.schedSeed),
		maxOps:       200000,
	}
	var commitActive []int // migration executing when commit k was released (index k-1)
	var commitOrd []int    // ordinal of commit k among the commits of that migration
	opsBy, commitsBy := map[int]int{}, map[int]int{}
	curOrd, curCommitOrd := 0, 0 // ordinals of the operation being released
	res.migCommits = map[int]int{}
	lastApplied := res.pre.CurrentVersion
	p.afterCommit = func(k int, info opInfo) {
		res.migCommits[commitActive[k-1]]++
		if in.onApplied != nil && commitActive[k-1] == -1 && info.bucket == byte(db.SchemaMetadata) {
			now := readMeta(c, img).CurrentVersion
			for i := range now.Difference(lastApplied).Iter() {
				in.onApplied(int(i), img)
			}
			lastApplied = now
		}
		if in.images != nil {
			in.images(k, info, commitActive[k-1], img.Copy())
		}
		if t := in.crashIn; t != nil && res.crashImg == nil && commitActive[k-1] == t.mig && commitOrd[k-1] == t.ord {
			res.crashImg, res.crashInfo, res.crashPruneCommits = img.Copy(), info, res.migCommits[idxPrune]
			cancel() // the rest of this start never happened: let it end quickly
		}
	}
	stageAtCancel := ""
	p.onOp = func(j int, info opInfo, nParked, chosen int) {
		if in.logOps {
			c.Logf("%s op %d/%d of %d: %s (mig %d)", in.tag, j, chosen, nParked, info, res.rl.active)
		}
		res.opMig = append(res.opMig, res.rl.active)
		curOrd = opsBy[res.rl.active]
		opsBy[res.rl.active]++
		if info.kind == opCommit {
			commitActive = append(commitActive, res.rl.active)
			curCommitOrd = commitsBy[res.rl.active]
			commitsBy[res.rl.active]++
			commitOrd = append(commitOrd, curCommitOrd)
		}
		st := stageOf(res.rl.active, info)
		res.stages = append(res.stages, st)
		if in.cancelAtOp == j {
			stageAtCancel = st
		}
	}
	hit := func(t *opTarget, info opInfo) bool {
		if t == nil || t.mig != res.rl.active {
			return false
		}
		if t.commits {
			return info.kind == opCommit && curCommitOrd == t.ord
		}
		return curOrd == t.ord
	}
	if in.cancelIn != nil {
		p.cancelWhen = func(j int, info opInfo) bool {
			if hit(in.cancelIn, info) {
				stageAtCancel = res.stages[j-1]
				return true
			}
			return false
		}
	}
	if in.failIn != nil {
		p.failWhen = func(_ int, info opInfo) bool { return hit(in.failIn, info) }
	}
	res.readStages, res.readNames = map[string]int{}, map[string]string{}
	readsBy := map[int]int{}
	var armed *readFault
	p.readFault = func(j int, info opInfo) *readFault {
		if info.name == "snapshot" {
			return nil
		}
		st := res.stages[j-1]
		n := res.readStages[st]
		res.readStages[st] = n + 1
		if n == 0 {
			res.readNames[st] = info.name
		}
		nm := readsBy[res.rl.active]
		readsBy[res.rl.active]++
		if t := in.readErr; t != nil && armed == nil && ((!t.byMig && t.stage == st && t.ord == n) || (t.byMig && t.mig == res.rl.active && t.ord == nm)) {
			mode := t.mode
			if !strings.HasSuffix(info.name, "iter") {
				mode = rfCall
			}
			armed = &readFault{mode: mode, nth: t.nth}
			res.readArmed, res.readArmedAt, res.readInfo = true, j, info
			return armed
		}
		return nil
	}
	var runner *migration.MigrationRunner
	err, broken := e.s.run(p, func() error {
		var err error
		runner, err = migration.NewRunner(reg, store, &networksSepolia, log.NewNopZapLogger())
		if err != nil {
			res.refused = err
			return nil
		}
		return runner.Run(ctx)
	})
	if broken != "" {
		c.Broken("%s: %s", in.tag, broken)
	}
	res.runErr = err
	res.ctxErrAtEnd = ctx.Err()
	res.ops, res.commits = e.s.ops, e.s.commits
	res.cancelFired, res.cancelInfo, res.cancelStage = e.s.cancelFired, e.s.cancelInfo, stageAtCancel
	res.failFired, res.failInfo = e.s.commitFailed, e.s.failInfo
	res.capped = e.s.capped
	if armed != nil {
		res.readFired, res.readHow = armed.fired()
	}
	res.post = readMeta(c, img)
	res.postStates = readStates(c, img, maxEntries)
	return res
}

// stageOf names the pipeline stage that issued a database operation, from the migration that is
// executing and the operation's content.
func stageOf(active int, o opInfo) string {
	b := db.Bucket(o.bucket)
	switch active {
	case -1:
		return "runner"
	case idxBlockTx:
		switch {
		case o.kind == opCommit && o.name == "write":
			return "blocktx.committer"
		case o.kind == opCommit:
			return "blocktx.clear_old_buckets"
		case o.name == "iter" && len(o.key) <= 2:
			return "blocktx.first_block_scan"
		case b == db.ChainHeight:
			return "blocktx.entry"
		default:
			return "blocktx.ingestor"
		}
	case idxPrune:
		switch {
		case o.kind == opCommit:
			return "prune.commit"
		case b == db.ChainHeight || b == db.L1Height || b == db.BlockHeadersByNumber:
			return "prune.entry"
		case b == db.StateUpdatesByBlockNumber:
			return "prune.worker_state_update"
		case b == db.BlockTransactions:
			return "prune.restorer_transactions"
		default:
			return "prune.worker_history"
		}
	case idxNewState:
		switch {
		case o.kind == opCommit && o.name == "write":
			return "headstate.committer"
		case o.kind == opCommit:
			return "headstate.wipe"
		case o.name == "iter":
			return "headstate.source"
		default:
			return "headstate.ingestor"
		}
	case idxSDL:
		switch {
		case o.kind == opCommit:
			return "sdl.committer"
		case b == db.ChainHeight || o.name == "iter":
			return "sdl.entry"
		default:
			return "sdl.ingestor"
		}
	}
	return fmt.Sprintf("toy%d", active)
}

func sameState(a, b []byte) bool { return bytes.Equal(a, b) }

// checkStart is the reference model of the runner's bookkeeping for ONE start. Nothing here depends
// on which migrations are real: it looks only at what Migrate returned and at the metadata before
// and after.
func checkStart(r *startRes, b binary, faultFree bool) *mismatch {
	if r.refused != nil {
		return nil
	}
	pending := b.target.Difference(r.pre.CurrentVersion)
	var order []int
	for i := range pending.Iter() {
		order = append(order, int(i))
	}
	var mig []call
	lastBefore := -1
	for _, k := range r.rl.calls {
		if k.before {
			if lastBefore != -1 {
				return &mismatch{"order", "before_without_migrate", fmt.Sprintf("Before(%d) called while Before(%d) was not followed by Migrate", k.idx, lastBefore)}
			}
			lastBefore = k.idx
			want, has := r.preStates[k.idx]
			if !has {
				want = nil
			}
			if !sameState(want, k.arg) {
				return &mismatch{"resume_token", "before_got_other_state_than_persisted", fmt.Sprintf("Before(%d) received %x, the database held %x (present=%v)", k.idx, k.arg, want, has)}
			}
			if !has && !k.argNil {
				return &mismatch{"resume_token", "before_first_run_state_not_nil", fmt.Sprintf("Before(%d) on a first run received a non-nil state", k.idx)}
			}
			continue
		}
		if lastBefore != k.idx {
			return &mismatch{"order", "migrate_without_before", fmt.Sprintf("Migrate(%d) not preceded by its Before (last Before: %d)", k.idx, lastBefore)}
		}
		lastBefore = -1
		mig = append(mig, k)
	}
	for i, k := range mig {
		if i >= len(order) || order[i] != k.idx {
			return &mismatch{"order", "pending_not_run_once_in_index_order", fmt.Sprintf("Migrate calls %v, pending in index order %v (applied before the run: %b)", idxs(mig), order, r.pre.CurrentVersion)}
		}
	}
	if !r.post.CurrentVersion.Contains(r.pre.CurrentVersion) {
		return &mismatch{"bookkeeping", "applied_bit_cleared", fmt.Sprintf("applied %b -> %b", r.pre.CurrentVersion, r.post.CurrentVersion)}
	}
	byIdx := map[int]call{}
	for _, k := range mig {
		byIdx[k.idx] = k
	}
	for i := range r.post.CurrentVersion.Difference(r.pre.CurrentVersion).Iter() {
		k, ok := byIdx[int(i)]
		if !ok {
			return &mismatch{"applied_without_completion", "no_migrate_call_in_this_run", fmt.Sprintf("migration %d became applied in a run that never called its Migrate", i)}
		}
		if o := k.outcome(); o != "(nil,nil)" {
			return &mismatch{"applied_without_completion", "migrate_returned_" + o, fmt.Sprintf("migration %d is recorded as applied although its Migrate returned %s (err=%v) in this run", i, o, k.err)}
		}
	}
	for _, k := range mig {
		post, has := r.postStates[k.idx]
		switch o := k.outcome(); {
		case o == "(nil,nil)":
			applied := r.post.CurrentVersion.Has(uint8(k.idx))
			if faultFree && !applied {
				return &mismatch{"bookkeeping", "completed_not_recorded", fmt.Sprintf("Migrate(%d) returned (nil,nil) but the applied bit is not set", k.idx)}
			}
			if applied && has {
				return &mismatch{"bookkeeping", "resume_token_left_after_completion", fmt.Sprintf("migration %d applied but its intermediate state %x is still stored", k.idx, post)}
			}
		case o == "(state,nil)" || o == "(state,ctxerr)":
			if faultFree && (!has || !sameState(post, k.state)) {
				return &mismatch{"resume_token", "returned_state_not_saved", fmt.Sprintf("Migrate(%d) returned %s with state %x, stored afterwards: %x (present=%v)", k.idx, o, k.state, post, has)}
			}
		}
	}
	if faultFree && r.runErr == nil && r.ctxErrAtEnd == nil {
		// an undisturbed run that reports success has called every pending migration
		if len(mig) != len(order) {
			return &mismatch{"order", "pending_skipped", fmt.Sprintf("run returned nil after calling %v, pending were %v", idxs(mig), order)}
		}
	}
	if r.ctxErrAtEnd == nil && r.runErr == nil {
		for _, k := range mig {
			if o := k.outcome(); o == "(nil,err)" || o == "(state,err)" {
				return &mismatch{"bookkeeping", "error_swallowed", fmt.Sprintf("Migrate(%d) returned %s but Run reported success", k.idx, o)}
			}
		}
	}
	return nil
}

func idxs(ks []call) []int {
	out := make([]int, len(ks))
	for i, k := range ks {
		out[i] = k.idx
	}
	return out
}

// imageDiff describes how two key-value images differ (nil: identical).
func imageDiff(c *sim.Ctx, got, want *memory.Database) *string {
	a, err := faultdb.Image(got)
	c.Must(err, "image")
	b, err := faultdb.Image(want)
	c.Must(err, "image")
	onlyA, onlyB, changed := faultdb.Diff(a, b, 6)
	if len(onlyA)+len(onlyB)+len(changed) == 0 {
		return nil
	}
	f := func(ks [][]byte) []string {
		var out []string
		for _, k := range ks {
			out = append(out, fmt.Sprintf("%s:%x", bucketName(first(k)), k[1:]))
		}
		return out
	}
	s := fmt.Sprintf("only in this image %v, only in the uninterrupted run's image %v, different value %v", f(onlyA), f(onlyB), f(changed))
	return &s
}

func diffBuckets(c *sim.Ctx, got, want *memory.Database) string {
	a, _ := faultdb.Image(got)
	b, _ := faultdb.Image(want)
	onlyA, onlyB, changed := faultdb.Diff(a, b, 1)
	for _, ks := range [][][]byte{onlyB, changed, onlyA} {
		if len(ks) > 0 {
			return bucketName(first(ks[0]))
		}
	}
	return "none"
}
