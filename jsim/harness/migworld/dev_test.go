package migworld

import (
	"fmt"
	"os"
	"sort"
	"strconv"
	"testing"
	"testing/synctest"
	"time"

	"jsim/sim"
)

// TestDev is a developer aid (JSIM_DEV=<runs>, JSIM_DEV_SEED0, JSIM_DEV_V=1): many seeds in one
// bubble, violation keys tallied, generate-vs-replay hashes compared.
func TestDev(t *testing.T) {
	n, _ := strconv.Atoi(os.Getenv("JSIM_DEV"))
	if n == 0 {
		t.Skip("JSIM_DEV not set")
	}
	s0, _ := strconv.Atoi(os.Getenv("JSIM_DEV_SEED0"))
	verbose := os.Getenv("JSIM_DEV_V") != ""
	synctest.Test(t, func(t *testing.T) {
		keys := map[string]int{}
		example := map[string]sim.RunResult{}
		probes := map[string]int{}
		faults := map[string]int{}
		inconcl, nontriv, evals := 0, 0, 0
		opt := sim.Options{Bubble: true, PanicIsViolation: true}
		var slowest time.Duration
		for i := 0; i < n; i++ {
			t0 := time.Now()
			_ = t0
			w0 := wallNow()
			r := sim.Exec(C18, "C18", "quick", uint64(i+s0)*7919+1, opt)
			d := wallNow() - w0
			if time.Duration(d) > slowest {
				slowest = time.Duration(d)
			}
			if r.Machinery != "" {
				t.Fatalf("seed %d machinery: %s\n%v", r.Seed, r.Machinery, tail(r.Events, 30))
			}
			r2 := sim.ExecTape(C18, "C18", "quick", r.Seed, r.Tape, opt)
			if r2.TraceHash != r.TraceHash {
				t.Fatalf("seed %d: replay hash differs\n%v\n%v", r.Seed, tail(r.Events, 40), tail(r2.Events, 40))
			}
			for k, v := range r.Probes {
				probes[k] += v
			}
			for k, v := range r.Faults {
				faults[k] += v
			}
			inconcl += r.Inconcl
			evals += r.Evals
			if r.Nontrivial {
				nontriv++
			}
			if verbose {
				fmt.Printf("seed %d: %.0fms evals=%d nontrivial=%v %v\n", r.Seed, float64(d)/1e6, r.Evals, r.Nontrivial, r.Events[0:min(2, len(r.Events))])
			}
			if r.Violation != nil {
				keys[r.Violation.Key]++
				if _, ok := example[r.Violation.Key]; !ok {
					example[r.Violation.Key] = r
				}
			}
		}
		var ks []string
		for k := range keys {
			ks = append(ks, k)
		}
		sort.Strings(ks)
		for _, k := range ks {
			r := example[k]
			fmt.Printf("%6d  %s\n        seed %d: %s\n", keys[k], k, r.Seed, r.Violation.Detail)
			if verbose {
				for _, e := range tail(r.Events, 25) {
					fmt.Println("          " + e)
				}
			}
		}
		fmt.Printf("runs=%d nontrivial=%d inconclusive=%d evals=%d slowest=%s\nprobes=%v\nfaults=%v\n", n, nontriv, inconcl, evals, slowest, probes, faults)
	})
}

func tail(xs []string, n int) []string {
	if len(xs) > n {
		return xs[len(xs)-n:]
	}
	return xs
}

// TestOne prints the full trace of one seed (JSIM_ONE=<seed>).
func TestOne(t *testing.T) {
	s, _ := strconv.ParseUint(os.Getenv("JSIM_ONE"), 10, 64)
	if s == 0 {
		t.Skip("JSIM_ONE not set")
	}
	synctest.Test(t, func(t *testing.T) {
		r := sim.Exec(C18, "C18", "quick", s, sim.Options{Bubble: true, PanicIsViolation: true})
		for _, e := range r.Events {
			fmt.Println(e)
		}
		fmt.Printf("violation=%v machinery=%q nontrivial=%v evals=%d faults=%v probes=%v\n", r.Violation, r.Machinery, r.Nontrivial, r.Evals, r.Faults, r.Probes)
		r2 := sim.ExecTape(C18, "C18", "quick", s, r.Tape, sim.Options{Bubble: true, PanicIsViolation: true})
		if r2.TraceHash != r.TraceHash {
			fmt.Println("REPLAY DIFFERS")
			for i := range r.Events {
				if i >= len(r2.Events) || r.Events[i] != r2.Events[i] {
					fmt.Println("  gen   :", r.Events[i])
					if i < len(r2.Events) {
						fmt.Println("  replay:", r2.Events[i])
					}
					break
				}
			}
		}
	})
}
