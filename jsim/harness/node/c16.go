package node

import (
	"context"
	"errors"
	"fmt"
	"sync"
	"testing/synctest"
	"time"

	"github.com/NethermindEth/juno/blockchain"
	"github.com/NethermindEth/juno/core"
	"github.com/NethermindEth/juno/core/felt"
	"github.com/NethermindEth/juno/db"
	"github.com/NethermindEth/juno/db/memory"
	"github.com/NethermindEth/juno/feed"
	"github.com/NethermindEth/juno/pruner"
	"github.com/NethermindEth/juno/utils/log"

	"jsim/chaingen"
	"jsim/faultdb"
	"jsim/sim"
)

// prunedNode is the node world plus the real pruner service.
type prunedNode struct {
	c        *sim.Ctx
	n        *Node
	pdb      *faultdb.DB // the pruner service's own view of the store: its commits are told apart from the harness's by the wrapper they go through, not by a flag two goroutines would race on
	gate     sync.Mutex  // held by the harness while it is inside one of its own operations: the pruner's commits wait until the harness is parked
	// hold parks the pruner (durably, on resume) before every commit: the harness then decides at
	// which of its own reads the prune makes progress
	hold   bool
	parked bool
	resume chan struct{}
	floor    *pruner.RetentionFloor
	heads    *feed.Feed[*core.Block]
	cancel   context.CancelFunc
	done     chan struct{}
	retained uint64
	opts     []pruner.Option
	newState bool
}

func openPruned(c *sim.Ctx, st *Store, newState bool, retained uint64, opts []pruner.Option) *prunedNode {
	p := &prunedNode{c: c, retained: retained, opts: opts, newState: newState}
	p.attach(st)
	return p
}

// attach builds blockchain + pruner on the store (start-up of a pruning node).
func (p *prunedNode) attach(st *Store) {
	c := p.c
	n := &Node{c: c, NewState: p.newState, St: st, Net: chaingen.New().Net, Name: "P"}
	n.FDB = faultdb.Wrap(st.kv)
	floor, err := pruner.NewRetentionFloor(n.FDB)
	c.Must(err, "seed retention floor")
	n.BC = blockchain.New(n.FDB, n.Net, blockchain.WithNewState(p.newState), blockchain.WithRetentionFloor(floor),
		blockchain.WithRunningEventFilterInitializer(pruner.InitializeRunningEventFilter))
	p.n, p.floor = n, floor
	p.heads = feed.New[*core.Block]()
	p.hold, p.parked, p.resume = false, false, make(chan struct{})
	ctx, cancel := context.WithCancel(context.Background())
	p.cancel = cancel
	p.done = make(chan struct{})
	p.pdb = faultdb.Wrap(st.kv)
	svc := pruner.New(p.pdb, floor, p.retained, p.heads.Subscribe(), n.BC.SubscribeL1Head().Subscription, log.NewNopZapLogger(), p.opts...)
	go func() {
		defer close(p.done)
		if err := svc.Run(ctx); err != nil {
			c.Logf("pruner.Run returned %v", err)
		}
	}()
	synctest.Wait()
}

func (p *prunedNode) stop() {
	p.hold = false
	p.cancel()
	for {
		select {
		case <-p.done:
			return
		case p.resume <- struct{}{}: // a pruner parked before a commit (the run ended inside a race step)
		}
	}
}

// belowFloor: an accessor of a pruned block may fail, or return the complete stored value - never
// a partial or different one.
func (k *checker) belowFloor(what string, want, got any, err error) {
	k.n.c.Evals++
	if err != nil {
		return
	}
	if cw, cg := canon(want), canon(got); cw != cg {
		k.fail("pruned_partial", what, "%s of a block below the retention floor returned data that differs from what was stored: %s", what, firstDiff(cw, cg))
	}
}

// CheckStateErrorOrCorrect: a state read "as of block n" may be refused, but whatever it returns
// must be the value as of block n - never a value reconstructed from partially pruned history.
func (k *checker) CheckStateErrorOrCorrect(n int, g *chaingen.Gen) {
	b := k.m.Chain[n]
	k.stateErrorOrCorrect(b, g, "StateAtBlockNumber", func() (core.StateReader, func() error, error) {
		return k.n.BC.StateAtBlockNumber(b.B.Number)
	})
	// the same block named by its hash (a hash->number lookup left behind below the floor must not
	// open a "historical" reader over history that is gone)
	k.stateErrorOrCorrect(b, g, "StateAtBlockHash", func() (core.StateReader, func() error, error) {
		return k.n.BC.StateAtBlockHash(b.B.Hash)
	})
}

func (k *checker) stateErrorOrCorrect(b *chaingen.Block, g *chaingen.Gen, via string, open func() (core.StateReader, func() error, error)) {
	r, closer, err := open()
	k.n.c.Evals++
	if err != nil {
		return
	}
	defer func() { _ = closer() }()
	addrs := append(append([]felt.Felt(nil), g.Addrs...), felt.One, felt.FromUint64[felt.Felt](2))
	for _, a := range addrs {
		c := b.Post.Contracts[a]
		if c == nil {
			continue
		}
		if !c.System {
			if ch, err := r.ContractClassHash(&a); err == nil && !ch.Equal(&c.ClassHash) {
				k.fail("pruned_partial", "state.ContractClassHash", "%s(%d).ContractClassHash(%s)=%s want %s (history partially pruned)", via, b.B.Number, a.String(), ch.String(), c.ClassHash.String())
			}
			if nn, err := r.ContractNonce(&a); err == nil && !nn.Equal(&c.Nonce) {
				k.fail("pruned_partial", "state.ContractNonce", "%s(%d).ContractNonce(%s)=%s want %s (history partially pruned)", via, b.B.Number, a.String(), nn.String(), c.Nonce.String())
			}
		}
		for _, sl := range k.querySlots(g) {
			want := c.Storage[sl]
			if got, err := r.ContractStorage(&a, &sl); err == nil && !got.Equal(&want) {
				k.fail("pruned_partial", "state.ContractStorage", "%s(%d).ContractStorage(%s,%s)=%s want %s (history partially pruned)", via, b.B.Number, a.String(), sl.String(), got.String(), want.String())
			}
		}
	}
}

func (k *checker) CheckBelowFloor(b *chaingen.Block, stateMustFail bool) {
	bc := k.n.BC
	num := b.B.Number
	blk, err := bc.BlockByNumber(num)
	k.belowFloor("BlockByNumber", b.B, blk, err)
	blk, err = bc.BlockByHash(b.B.Hash)
	k.belowFloor("BlockByHash", b.B, blk, err)
	hd, err := bc.BlockHeaderByNumber(num)
	k.belowFloor("BlockHeaderByNumber", b.B.Header, hd, err)
	txs, err := bc.TransactionsByBlockNumber(num)
	if err == nil && len(txs) == 0 && len(b.B.Transactions) == 0 {
		err = errors.New("empty") // nothing to judge
	}
	k.belowFloor("TransactionsByBlockNumber", b.B.Transactions, txs, err)
	su, err := bc.StateUpdateByNumber(num)
	k.belowFloor("StateUpdateByNumber", b.SU, su, err)
	for i, tx := range b.B.Transactions {
		got, err := bc.TransactionByHash(tx.Hash())
		k.belowFloor("TransactionByHash", tx, got, err)
		rc, _, _, err := bc.Receipt(tx.Hash())
		k.belowFloor("Receipt", b.B.Receipts[i], rc, err)
		got, err = bc.TransactionByBlockNumberAndIndex(num, uint64(i))
		k.belowFloor("TransactionByBlockNumberAndIndex", tx, got, err)
	}
	if stateMustFail {
		// state at a block more than one below the floor is not reconstructible: it must be refused,
		// not answered from partially pruned history
		r, closer, err := bc.StateAtBlockNumber(num)
		k.n.c.Evals++
		if err == nil {
			_ = closer()
			_ = r
			k.fail("pruned_state_served", "StateAtBlockNumber", "StateAtBlockNumber(%d) succeeded although the oldest retained block is above %d", num, num+1)
		}
	}
}

// C16: pruning never damages retained blocks, the head state, or L1-unconfirmed history.
func C16(c *sim.Ctx) {
	t := c.T
	start := time.Now()
	defer func() { c.SimNs += int64(time.Since(start)) }()
	newState := t.Draw("newstate", 4) == 3
	retained := []uint64{0, 1, 2, 5, 50}[t.Draw("retained", 5)]
	var opts []pruner.Option
	opts = append(opts, pruner.WithL2HeadsPerPrune([]uint64{1, 2, 128}[t.Draw("heads.per.prune", 3)]))
	if t.Draw("tiny.batches", 2) == 1 {
		opts = append(opts, pruner.WithTargetBatchByteSize(1+t.Draw("batch.bytes", 400)))
	}
	minAge := time.Duration(0)
	if t.Draw("minage", 3) == 0 {
		minAge = time.Duration(1+t.Draw("minage.min", 90)) * time.Minute
		opts = append(opts, pruner.WithMinAge(minAge), pruner.WithFloorTickInterval(7*time.Minute))
	}
	aheadClock := minAge > 0 && t.Draw("ts.class", 4) == 3
	d := newChainDriver(c)
	d.opts.MaxEvents = 1 + t.Draw("max.events", 2)
	d.opts.MaxTxs = 1 + t.Draw("max.txs", 3)
	st := NewStore(c, false)
	p := openPruned(c, st, newState, retained, opts)
	defer func() { p.stop() }()
	twin := OpenNode(c, NewStore(c, false), newState, "T(unpruned)")
	m := &Model{}
	c.Logf("config newstate=%v retained=%d minAge=%v opts=%d chain=%+v", newState, retained, minAge, len(opts), d.opts)

	allowed := int64(-1) // highest floor any prune so far was entitled to
	var l1 uint64
	hasL1 := false
	noteBound := func() {
		if !hasL1 || len(m.Chain) == 0 {
			return
		}
		b := int64(minU64(l1, m.Head().B.Number)) - int64(retained)
		if b > allowed {
			allowed = b
		}
	}
	type pruneImage struct {
		st       *Store
		entitled int64 // highest floor a prune was entitled to when the image was taken
	}
	var images []pruneImage
	gated := false
	lock := func() {
		if !gated {
			p.gate.Lock()
			gated = true
		}
	}
	unlock := func() {
		if gated {
			p.gate.Unlock()
			gated = false
		}
	}
	defer unlock()
	// fault class: one commit issued by the pruner fails (own operations are not counted)
	injectPruneError := t.Draw("prune.error", 4) == 0
	failAt := 0
	if injectPruneError {
		failAt = 1 + t.Draw("prune.error.at", 6)
	}
	var midFail *mismatch // found by the reader that runs between two prune batch commits
	pruneCommits := 0
	hookImages := func(n *Node) {
		pdb := p.pdb
		pdb.Plan.FailCommitAt = 0
		pdb.Plan.BeforeCommit = func(int) {
			// the pruner runs on its own goroutine: it commits only while the harness is parked
			p.gate.Lock()
			p.gate.Unlock() //nolint:staticcheck // gate, not a critical section
			if p.hold {
				p.parked = true
				<-p.resume
				p.parked = false
			}
			if failAt == 0 {
				return
			}
			pruneCommits++
			if pruneCommits == failAt {
				// arm the failure for exactly this commit
				pdb.Plan.FailCommitAt = pdb.Commits
			}
		}
		pdb.Plan.AfterCommit = func(int) {
			if len(images) < 4 {
				images = append(images, pruneImage{n.St.CrashImage(c), allowed})
				c.Logf("crash image %d taken after a prune batch commit (entitled floor %d)", len(images), allowed)
				c.Fault("crash_image_after_prune_batch")
			}
			// a reader scheduled between two batch writes of the prune: whatever state read the node
			// admits must be correct
			if midFail == nil && len(m.Chain) > 0 {
				k := &checker{n: n, m: m}
				midFail = k.try(func() {
					for i := range m.Chain {
						k.CheckStateErrorOrCorrect(i, d.g)
					}
				})
				c.Probe("reader_between_prune_batches")
			}
		}
	}
	hookImages(p.n)
	lastOldest := uint64(0)
	prunes := 0

	check := func(n *Node, name string) {
		k := &checker{n: n, m: m}
		k.CheckHead()
		if len(m.Chain) == 0 {
			return
		}
		oldest, err := pruner.OldestRetainedBlock(n.FDB)
		if err != nil {
			k.fail("floor_unreadable", "OldestRetainedBlock", "OldestRetainedBlock: %v", err)
		}
		if int64(oldest) > allowed && oldest > 0 {
			k.fail("floor_too_high", "retention", "oldest retained block is %d but no prune was ever entitled to go above %d (L1 head %d present=%v, local head %d, retained %d)", oldest, allowed, l1, hasL1, m.Head().B.Number, retained)
		}
		if oldest > lastOldest {
			prunes++
			c.Probe("floor_advanced")
			if minAge > 0 {
				cutoff := uint64(time.Now().Add(-minAge).Unix())
				for i := uint64(0); i < oldest; i++ {
					if m.Chain[i].B.Timestamp >= cutoff {
						k.fail("pruned_too_young", "min_age", "block %d (timestamp start%+ds) was pruned although it is younger than the minimum age (cutoff start%+ds)", i, int64(m.Chain[i].B.Timestamp)-start.Unix(), int64(cutoff)-start.Unix())
					}
				}
				c.Probe("min_age_prune")
			}
			lastOldest = oldest
		}
		k.CheckRoot()
		head := m.Head().B.Number
		if c.Knobs["debug"] != "" {
			c.Logf("DEBUG check: oldest=%d allowed=%d inject=%v head=%d", oldest, allowed, injectPruneError, head)
		}
		// With a failed (interrupted) prune the node has already raised its floor to the prune's
		// target while the database's oldest retained block is still the old one: blocks between the
		// two are mid-prune. What must be complete is everything at or above the floor a prune was
		// entitled to; below it every answer is "error or correct".
		lo := oldest
		if injectPruneError && allowed > int64(lo) {
			lo = minU64(uint64(allowed), head)
		}
		for i := lo; i <= head; i++ {
			k.CheckBlock(m.Chain[i])
		}
		from := lo
		if from > 0 {
			from-- // historical state from one block below the floor upwards
		}
		// sample: the lowest queryable block, one more, and the head
		for _, i := range []uint64{from, minU64(from+1, head), head} {
			k.CheckStateAt(int(i), d.g, i == head)
		}
		for i := uint64(0); i < lo; i++ {
			k.CheckBelowFloor(m.Chain[i], !injectPruneError && oldest >= 2 && i < oldest-1)
			k.CheckStateErrorOrCorrect(int(i), d.g)
		}
		for j := 0; j < 2; j++ {
			f := genFilter(c, d.g, head)
			if f.from < lo {
				f.from = lo
			}
			if f.to < f.from {
				f.to = head
			}
			k.CheckEvents(f, []uint64{evChunks[t.Draw("ev.chunk", len(evChunks))], 1000}, []uint{0})
		}
		_ = name
	}

	steps := 8 + t.Draw("steps", 30)
	// "long backlog" scenario: the chain grows to 14..25 blocks before any L1 head is recorded (no
	// prune so far), then the race step below lets the first, large prune run inside a reader
	backlog := 0
	if t.Draw("race.scenario", 6) == 5 {
		backlog = 14 + t.Draw("race.backlog", 12)
		c.Probe("long_backlog_scenario")
	}
	for s := 0; s < steps; s++ {
		op := t.Draw("op", 18)
		if backlog > 0 {
			switch {
			case len(m.Chain) < backlog:
				op, s = 0, s-1 // build the backlog first (does not count as a step)
			default:
				op, backlog = 16, -1 // the race step comes next, in its sharpest form
			}
		}
		lock()
		switch {
		case op <= 6 || len(m.Chain) == 0:
			if len(m.Chain) >= 40 {
				continue
			}
			// block timestamps around the node's clock; in the "fast sequencer clock" class they run
			// ahead of it (the node's clock is behind), which makes every block look young
			if aheadClock {
				d.opts.MinTime = uint64(time.Now().Unix()) + uint64(t.Draw("ts.ahead", 7200))
			} else {
				d.opts.MinTime = uint64(time.Now().Unix()) - uint64(t.Draw("ts.skew", 600))
			}
			b := d.next(m.Head())
			for _, n := range []*Node{p.n, twin} {
				if err := n.StoreBlock(b); err != nil {
					c.Fail("valid_block_rejected", "store", "[%s] valid block %d rejected on a pruning node: %v", n.Name, b.B.Number, err)
				}
			}
			m.Chain = append(m.Chain, b)
			c.Logf("store block %d ts=start%+ds", b.B.Number, int64(b.B.Timestamp)-start.Unix())
			noteBound()
			p.heads.Send(CloneBlock(b.B))
		case op <= 8:
			// the chain can be reverted down to the floor. After a failed (interrupted) prune the
			// node's floor is the one that prune was entitled to, although the database still holds
			// older blocks: reverting the floor block itself would take the head below the floor,
			// which the property does not promise (found by the thorough tier: the node then refuses
			// state reads below its floor, as it should).
			revFloor := lastOldest
			if injectPruneError && allowed > int64(revFloor) {
				revFloor = uint64(allowed)
			}
			if uint64(len(m.Chain)) <= revFloor+1 || len(m.Chain) <= 1 {
				continue
			}
			h := m.Head()
			for _, n := range []*Node{p.n, twin} {
				if err := n.BC.RevertHead(); err != nil {
					c.Fail("revert_failed", "pruning_node", "[%s] RevertHead of block %d (oldest retained %d) failed: %v", n.Name, h.B.Number, lastOldest, err)
				}
			}
			m.Chain = m.Chain[:len(m.Chain)-1]
			m.Reverted = append(m.Reverted, h)
			d.newFork()
			d.rewindTo(m.Head())
			c.Logf("revert block %d", h.B.Number)
			c.Fault("revert")
		case op <= 11:
			// L1 head: lagging behind, equal to, or ahead of the local head; never regressing
			var num uint64
			head := m.Head().B.Number
			switch t.Draw("l1.kind", 4) {
			case 0:
				num = head + uint64(1+t.Draw("l1.ahead", 5))
				c.Probe("l1_ahead_of_head")
			case 1:
				num = head
			default:
				num = uint64(t.Draw("l1.lag", int(head)+1))
			}
			if hasL1 && num < l1 {
				num = l1
			}
			l1, hasL1 = num, true
			lh := &core.L1Head{BlockNumber: num, BlockHash: felt.NewFromUint64[felt.Felt](num + 1), StateRoot: felt.NewFromUint64[felt.Felt](num + 2)}
			if int(num) < len(m.Chain) {
				lh = l1HeadFor(m.Chain[num])
			}
			noteBound()
			c.Logf("L1 head -> %d (local head %d)", num, head)
			if err := p.n.BC.SetL1Head(lh); err != nil {
				c.Fail("valid_op_failed", "set L1", "SetL1Head: %v", err)
			}
			m.L1Head = lh
		case op >= 16:
			// A reader races a prune: the node restarts (its event index is rebuilt lazily by the
			// first query), an L1 head entitles a prune, the pruner is held before its first commit,
			// and an event query over blocks that stay retained runs with the prune making progress
			// at a tape-chosen read of the query. The answer must be exact all the same.
			if len(m.Chain) < 3 {
				continue
			}
			graceful := t.Draw("race.graceful", 2) == 1
			sharp := backlog == -1
			if sharp {
				// ungraceful stop: the event index has to be rebuilt from the headers, from the floor up
				graceful, backlog = false, 0
			}
			p.stop()
			if graceful {
				_ = p.n.BC.WriteRunningEventFilter()
			}
			unlock()
			p.attach(p.n.St)
			hookImages(p.n)
			head := m.Head().B.Number
			// the L1 path prunes only while the L1 head lags behind the local head
			lowest := uint64(0)
			if hasL1 {
				lowest = l1
			}
			num := lowest
			if lowest < head {
				num = head - 1 - uint64(t.Draw("race.l1.lag", int(head-lowest)))
			}
			l1, hasL1 = num, true
			lh := &core.L1Head{BlockNumber: num, BlockHash: felt.NewFromUint64[felt.Felt](num + 1), StateRoot: felt.NewFromUint64[felt.Felt](num + 2)}
			if int(num) < len(m.Chain) {
				lh = l1HeadFor(m.Chain[num])
			}
			noteBound()
			c.Logf("restart (graceful=%v), L1 head -> %d with the prune held (local head %d)", graceful, num, head)
			p.hold = true
			if err := p.n.BC.SetL1Head(lh); err != nil {
				c.Fail("valid_op_failed", "set L1", "SetL1Head: %v", err)
			}
			m.L1Head = lh
			synctest.Wait()
			if p.parked {
				c.Probe("prune_held_before_first_commit")
				at, batches, reads, done := 1+t.Draw("race.read", 10), 1+t.Draw("race.batches", 3), 0, false
				if sharp {
					// the whole prune runs inside the reader, at one of its first reads
					at, batches = 1+t.Draw("race.read.sharp", 5), 8
				}
				p.n.FDB.Plan.BeforeRead = func(kind string) {
					reads++
					if done || reads != at {
						return
					}
					done = true
					for i := 0; i < batches && p.parked; i++ {
						c.Logf("  prune batch released before read %d (%s) of the query", reads, kind)
						p.resume <- struct{}{}
						synctest.Wait()
						c.Fault("prune_batch_inside_reader")
					}
				}
				f := genFilter(c, d.g, head)
				if lo := uint64(max(allowed, 0)); f.from < lo {
					f.from = lo
				}
				if f.to < f.from {
					f.to = head
				}
				(&checker{n: p.n, m: m}).CheckEvents(f, []uint64{evChunks[t.Draw("ev.chunk", len(evChunks))]}, []uint{0})
				p.n.FDB.Plan.BeforeRead = nil
				if done {
					c.Probe("query_raced_a_prune")
				}
			}
			p.hold = false
			if p.parked {
				p.resume <- struct{}{}
			}
		case op <= 13:
			dur := time.Duration(1+t.Draw("sleep.min", 120)) * time.Minute
			if minAge > 0 && t.Draw("sleep.long", 2) == 1 {
				dur += minAge + 8*time.Minute // long enough for blocks to age and the sampler to tick
			}
			c.Logf("clock +%v", dur)
			unlock() // nothing of the harness's own runs while the clock advances
			time.Sleep(dur)
			c.Fault("clock_advance")
		default:
			graceful := t.Draw("restart.graceful", 2) == 1
			c.Logf("restart pruning node graceful=%v", graceful)
			p.stop()
			if graceful {
				_ = p.n.BC.WriteRunningEventFilter()
				c.Fault("graceful_restart")
			} else {
				c.Fault("ungraceful_restart")
			}
			unlock() // start-up runs with the harness parked in attach
			p.attach(p.n.St)
			hookImages(p.n)
		}
		unlock()
		synctest.Wait()
		if midFail != nil {
			c.Fail("mid_prune_read", midFail.class+":"+midFail.key, "a reader scheduled between two batch writes of a prune: %s", midFail.detail)
		}
		for _, f := range p.pdb.Fired {
			c.Fault("prune_" + f)
		}
		p.pdb.Fired = nil
		check(p.n, "pruned")
	}
	// twin sanity: the unpruned node still has everything (the model itself is validated)
	unlock()
	kt := &checker{n: twin, m: m}
	kt.CheckHead()
	p.stop()
	// crash images taken after prune batches: recover, check, and let the prune finish
	for _, pimg := range images {
		img := pimg.st
		rn := OpenNode(c, img, newState, "R(prune-crash)")
		k := &checker{n: rn, m: nil}
		_ = k
		oldest, err := pruner.OldestRetainedBlock(rn.FDB)
		if err != nil && !errors.Is(err, db.ErrKeyNotFound) {
			c.Fail("crash_inconsistent", "prune/OldestRetainedBlock", "after a crash inside a prune: OldestRetainedBlock: %v", err)
		}
		h, herr := rn.BC.Height()
		if herr != nil {
			c.Fail("crash_inconsistent", "prune/Height", "after a crash inside a prune: Height: %v", herr)
		}
		// the model as of that image: the canonical or a reverted block at each number; compare by hash
		mm := &Model{}
		ok := true
		for i := uint64(0); i <= h && ok; i++ {
			hash, err := rn.BC.BlockHeaderHashByNumber(i)
			if err != nil {
				if i < oldest {
					mm.Chain = append(mm.Chain, nil)
					continue
				}
				c.Fail("crash_inconsistent", "prune/header", "after a crash inside a prune: header hash of retained block %d: %v", i, err)
			}
			var found *chaingen.Block
			for _, b := range append(append([]*chaingen.Block(nil), m.Chain...), m.Reverted...) {
				if b.B.Number == i && b.B.Hash.Equal(hash) {
					found = b
				}
			}
			if found == nil {
				c.Fail("crash_inconsistent", "prune/unknown_block", "after a crash inside a prune: block %d has a hash no stored block had", i)
			}
			mm.Chain = append(mm.Chain, found)
		}
		rk := &checker{n: rn, m: mm}
		// A restarted node seeds its retention floor from the database (the oldest block whose
		// commitments record is present), so after a crash at any batch boundary of a prune every
		// block from there up must be complete, hash-keyed lookups included; the blocks below it
		// are in the middle of being pruned (hash-keyed lookups gone, number-keyed records still
		// there): every accessor may fail or must return the complete stored value.
		complete := oldest
		c.Logf("recover prune crash image: head=%d oldest_retained=%d entitled_floor=%d", h, oldest, pimg.entitled)
		for i := complete; i <= h; i++ {
			rk.CheckBlock(mm.Chain[i])
		}
		for i := uint64(0); i < complete && i <= h; i++ {
			if mm.Chain[i] != nil {
				rk.CheckBelowFloor(mm.Chain[i], false)
			}
		}
		// a re-run of the prune (to the floor the interrupted one was entitled to) completes
		if pimg.entitled > 0 && uint64(pimg.entitled) <= h {
			target := uint64(pimg.entitled)
			if _, _, err := pruner.PruneUpto(context.Background(), rn.FDB, target, 64); err != nil {
				c.Fail("prune_cannot_resume", "PruneUpto", "after a crash inside a prune (oldest retained %d, head %d) PruneUpto(%d) failed: %v", oldest, h, target, err)
			}
			o2, _ := pruner.OldestRetainedBlock(rn.FDB)
			if o2 > target {
				c.Fail("floor_too_high", "resumed_prune", "resumed PruneUpto(%d) left oldest retained block %d", target, o2)
			}
			for i := target; i <= h; i++ {
				rk.CheckBlock(mm.Chain[i])
			}
			// what the interrupted and the resumed prune left below the floor: refused or correct
			for i := uint64(0); i < target; i++ {
				if mm.Chain[i] != nil {
					rk.CheckBelowFloor(mm.Chain[i], false)
					rk.CheckStateErrorOrCorrect(int(i), d.g)
				}
			}
			c.Probe("prune_resumed_after_crash")
		}
		c.Evals++
	}
	c.Nontrivial = prunes > 0
	_ = fmt.Sprint
	_ = memory.New
}
