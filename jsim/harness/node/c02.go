package node

import (
	"fmt"
	"sort"
	"strings"

	"github.com/NethermindEth/juno/core"
	"github.com/NethermindEth/juno/core/felt"

	"jsim/chaingen"
	"jsim/faultdb"
	"jsim/refstate"
	"jsim/sim"
)

// A tampering changes exactly one committed field of a valid block (optionally re-deriving the
// hashes an attacker could re-derive, so that deeper checks are reached). The catalogue lists only
// fields that the hash formulas of the block's protocol version commit to.
type tampering struct {
	name  string
	apply func(tb *tampered) bool // false: not applicable to this block
}

type tampered struct {
	c   *sim.Ctx
	g   *chaingen.Gen
	b   *core.Block
	su  *core.StateUpdate
	cls map[felt.Felt]core.ClassDefinition
	ver string
}

func bump(f *felt.Felt) *felt.Felt {
	var x felt.Felt
	x.Add(f, felt.NewFromUint64[felt.Felt](1))
	return &x
}

func (tb *tampered) pickTx(pred func(core.Transaction) bool) (int, core.Transaction) {
	var idx []int
	for i, tx := range tb.b.Transactions {
		if pred(tx) {
			idx = append(idx, i)
		}
	}
	if len(idx) == 0 {
		return -1, nil
	}
	i := idx[tb.c.T.Draw("tamper.tx", len(idx))]
	return i, tb.b.Transactions[i]
}

// rehashTx recomputes a transaction's hash after a field change and keeps the receipt linked, so
// that the tampering is only visible through the block hash (transaction commitment).
func (tb *tampered) rehashTx(i int) {
	chaingen.SetTxHash(tb.b.Transactions[i], tb.g.Net)
	tb.b.Receipts[i].TransactionHash = tb.b.Transactions[i].Hash()
}

// rehashBlock recomputes the block hash (an attacker can always do that); what remains wrong is
// then the state root, the linkage or a transaction hash.
func (tb *tampered) rehashBlock() {
	h, _, err := core.BlockHash(tb.b, tb.su.StateDiff, tb.g.Net, nil, core.DeprecatedTrieBackend)
	tb.c.Must(err, "rehash tampered block")
	tb.b.Hash = &h
	tb.su.BlockHash = &h
}

func headerTamperings() []tampering {
	hdr := func(name string, f func(tb *tampered) bool) tampering { return tampering{"header." + name, f} }
	return []tampering{
		hdr("hash", func(tb *tampered) bool { tb.b.Hash = bump(tb.b.Hash); tb.su.BlockHash = tb.b.Hash; return true }),
		hdr("hash_only_in_block", func(tb *tampered) bool { tb.b.Hash = bump(tb.b.Hash); return true }),
		hdr("parent_hash", func(tb *tampered) bool { tb.b.ParentHash = bump(tb.b.ParentHash); return true }),
		hdr("parent_hash_rehashed", func(tb *tampered) bool { tb.b.ParentHash = bump(tb.b.ParentHash); tb.rehashBlock(); return true }),
		hdr("number_plus", func(tb *tampered) bool { tb.b.Number++; return true }),
		hdr("number_plus_rehashed", func(tb *tampered) bool { tb.b.Number++; tb.rehashBlock(); return true }),
		hdr("number_minus_rehashed", func(tb *tampered) bool {
			if tb.b.Number == 0 {
				return false
			}
			tb.b.Number--
			tb.rehashBlock()
			return true
		}),
		hdr("timestamp", func(tb *tampered) bool { tb.b.Timestamp++; return true }),
		hdr("sequencer", func(tb *tampered) bool { tb.b.SequencerAddress = bump(tb.b.SequencerAddress); return true }),
		hdr("l1_gas_price_eth", func(tb *tampered) bool { tb.b.L1GasPriceETH = bump(tb.b.L1GasPriceETH); return true }),
		hdr("l1_gas_price_strk", func(tb *tampered) bool { tb.b.L1GasPriceSTRK = bump(tb.b.L1GasPriceSTRK); return true }),
		hdr("l1_data_gas_price_wei", func(tb *tampered) bool {
			tb.b.L1DataGasPrice = &core.GasPrice{PriceInWei: bump(tb.b.L1DataGasPrice.PriceInWei), PriceInFri: tb.b.L1DataGasPrice.PriceInFri}
			return true
		}),
		hdr("l1_data_gas_price_fri", func(tb *tampered) bool {
			tb.b.L1DataGasPrice = &core.GasPrice{PriceInWei: tb.b.L1DataGasPrice.PriceInWei, PriceInFri: bump(tb.b.L1DataGasPrice.PriceInFri)}
			return true
		}),
		hdr("l2_gas_price_wei", func(tb *tampered) bool { // committed from 0.13.4 on
			if tb.ver < "0.13.4" {
				return false
			}
			tb.b.L2GasPrice = &core.GasPrice{PriceInWei: bump(tb.b.L2GasPrice.PriceInWei), PriceInFri: tb.b.L2GasPrice.PriceInFri}
			return true
		}),
		hdr("l2_gas_price_fri", func(tb *tampered) bool {
			if tb.ver < "0.13.4" {
				return false
			}
			tb.b.L2GasPrice = &core.GasPrice{PriceInWei: tb.b.L2GasPrice.PriceInWei, PriceInFri: bump(tb.b.L2GasPrice.PriceInFri)}
			return true
		}),
		hdr("l1_da_mode", func(tb *tampered) bool { tb.b.L1DAMode = 1 - tb.b.L1DAMode; return true }),
		hdr("protocol_version", func(tb *tampered) bool {
			// another version of the same hash family (the version string itself is committed)
			m := map[string]string{"0.13.2": "0.13.3", "0.13.4": "0.13.5", "0.14.0": "0.14.0.1", "0.14.1": "0.14.1.1"}
			tb.b.ProtocolVersion = m[tb.ver]
			return true
		}),
		hdr("transaction_count", func(tb *tampered) bool { tb.b.TransactionCount++; return true }),
		hdr("event_count", func(tb *tampered) bool { tb.b.EventCount++; return true }),
		hdr("state_root", func(tb *tampered) bool {
			tb.b.GlobalStateRoot = bump(tb.b.GlobalStateRoot)
			tb.su.NewRoot = tb.b.GlobalStateRoot
			return true
		}),
		hdr("state_root_rehashed", func(tb *tampered) bool {
			tb.b.GlobalStateRoot = bump(tb.b.GlobalStateRoot)
			tb.su.NewRoot = tb.b.GlobalStateRoot
			tb.rehashBlock()
			return true
		}),
		hdr("state_root_only_in_update", func(tb *tampered) bool { tb.su.NewRoot = bump(tb.su.NewRoot); return true }),
		hdr("old_root", func(tb *tampered) bool { tb.su.OldRoot = bump(tb.su.OldRoot); return true }),
	}
}

func txTamperings() []tampering {
	var out []tampering
	add := func(name string, f func(tb *tampered) bool) { out = append(out, tampering{"tx." + name, f}) }
	any := func(core.Transaction) bool { return true }
	hashed := func(tx core.Transaction) bool { _, legacy := tx.(*core.DeployTransaction); return !legacy }

	add("hash", func(tb *tampered) bool {
		i, tx := tb.pickTx(hashed)
		if i < 0 {
			return false
		}
		h := bump(tx.Hash())
		switch x := tx.(type) {
		case *core.InvokeTransaction:
			x.TransactionHash = h
		case *core.DeclareTransaction:
			x.TransactionHash = h
		case *core.DeployAccountTransaction:
			x.TransactionHash = h
		case *core.L1HandlerTransaction:
			x.TransactionHash = h
		}
		tb.b.Receipts[i].TransactionHash = h
		tb.rehashBlock()
		return true
	})
	add("drop_last", func(tb *tampered) bool {
		n := len(tb.b.Transactions)
		if n == 0 {
			return false
		}
		tb.b.Transactions, tb.b.Receipts = tb.b.Transactions[:n-1], tb.b.Receipts[:n-1]
		return true
	})
	add("swap_order", func(tb *tampered) bool {
		n := len(tb.b.Transactions)
		if n < 2 {
			return false
		}
		tb.b.Transactions[0], tb.b.Transactions[1] = tb.b.Transactions[1], tb.b.Transactions[0]
		tb.b.Receipts[0], tb.b.Receipts[1] = tb.b.Receipts[1], tb.b.Receipts[0]
		return true
	})
	add("signature", func(tb *tampered) bool {
		i, tx := tb.pickTx(func(tx core.Transaction) bool { return len(tx.Signature()) > 0 })
		if i < 0 {
			return false
		}
		switch x := tx.(type) {
		case *core.InvokeTransaction:
			x.TransactionSignature[0] = *bump(&x.TransactionSignature[0])
		case *core.DeclareTransaction:
			x.TransactionSignature[0] = *bump(&x.TransactionSignature[0])
		case *core.DeployAccountTransaction:
			x.TransactionSignature[0] = *bump(&x.TransactionSignature[0])
		}
		return true
	})
	// one field of the transaction changes; variant A keeps the stale transaction hash, variant B
	// re-derives the transaction hash (so only the block hash / transaction commitment exposes it)
	field := func(name string, pred func(core.Transaction) bool, mut func(tb *tampered, tx core.Transaction) bool) {
		for _, rehash := range []bool{false, true} {
			suffix := ""
			if rehash {
				suffix = "_txrehashed"
			}
			add(name+suffix, func(tb *tampered) bool {
				i, tx := tb.pickTx(pred)
				if i < 0 || !mut(tb, tx) {
					return false
				}
				if rehash {
					tb.rehashTx(i)
				}
				return true
			})
		}
	}
	_ = any
	isInvoke := func(v uint64) func(core.Transaction) bool {
		return func(tx core.Transaction) bool {
			x, ok := tx.(*core.InvokeTransaction)
			return ok && x.Version.Is(v)
		}
	}
	v3 := func(tx core.Transaction) bool { return tx.TxVersion() != nil && tx.TxVersion().Is(3) }
	field("invoke0.selector", isInvoke(0), func(tb *tampered, tx core.Transaction) bool {
		x := tx.(*core.InvokeTransaction)
		x.EntryPointSelector = bump(x.EntryPointSelector)
		return true
	})
	field("invoke0.max_fee", isInvoke(0), func(tb *tampered, tx core.Transaction) bool {
		x := tx.(*core.InvokeTransaction)
		x.MaxFee = bump(x.MaxFee)
		return true
	})
	field("invoke1.sender", isInvoke(1), func(tb *tampered, tx core.Transaction) bool {
		x := tx.(*core.InvokeTransaction)
		x.SenderAddress = bump(x.SenderAddress)
		return true
	})
	field("invoke.nonce", func(tx core.Transaction) bool { return isInvoke(1)(tx) || isInvoke(3)(tx) }, func(tb *tampered, tx core.Transaction) bool {
		x := tx.(*core.InvokeTransaction)
		x.Nonce = bump(x.Nonce)
		return true
	})
	field("invoke.calldata", func(tx core.Transaction) bool {
		x, ok := tx.(*core.InvokeTransaction)
		return ok && len(x.CallData) > 0
	}, func(tb *tampered, tx core.Transaction) bool {
		x := tx.(*core.InvokeTransaction)
		j := len(x.CallData) - 1
		x.CallData[j] = *bump(&x.CallData[j])
		return true
	})
	field("invoke.calldata_append", func(tx core.Transaction) bool { _, ok := tx.(*core.InvokeTransaction); return ok }, func(tb *tampered, tx core.Transaction) bool {
		x := tx.(*core.InvokeTransaction)
		x.CallData = append(x.CallData, felt.Zero)
		return true
	})
	field("v3.tip", v3, func(tb *tampered, tx core.Transaction) bool {
		switch x := tx.(type) {
		case *core.InvokeTransaction:
			x.Tip++
		case *core.DeclareTransaction:
			x.Tip++
		case *core.DeployAccountTransaction:
			x.Tip++
		}
		return true
	})
	field("v3.resource_bounds_l1_amount", v3, func(tb *tampered, tx core.Transaction) bool {
		var rb map[core.Resource]core.ResourceBounds
		switch x := tx.(type) {
		case *core.InvokeTransaction:
			rb = x.ResourceBounds
		case *core.DeclareTransaction:
			rb = x.ResourceBounds
		case *core.DeployAccountTransaction:
			rb = x.ResourceBounds
		}
		b := rb[core.ResourceL1Gas]
		b.MaxAmount++
		rb[core.ResourceL1Gas] = b
		return true
	})
	field("v3.resource_bounds_l2_price", v3, func(tb *tampered, tx core.Transaction) bool {
		var rb map[core.Resource]core.ResourceBounds
		switch x := tx.(type) {
		case *core.InvokeTransaction:
			rb = x.ResourceBounds
		case *core.DeclareTransaction:
			rb = x.ResourceBounds
		case *core.DeployAccountTransaction:
			rb = x.ResourceBounds
		}
		b := rb[core.ResourceL2Gas]
		b.MaxPricePerUnit = bump(b.MaxPricePerUnit)
		rb[core.ResourceL2Gas] = b
		return true
	})
	field("v3.resource_bounds_l1data_amount", func(tx core.Transaction) bool {
		if !v3(tx) {
			return false
		}
		var rb map[core.Resource]core.ResourceBounds
		switch x := tx.(type) {
		case *core.InvokeTransaction:
			rb = x.ResourceBounds
		case *core.DeclareTransaction:
			rb = x.ResourceBounds
		case *core.DeployAccountTransaction:
			rb = x.ResourceBounds
		}
		_, ok := rb[core.ResourceL1DataGas]
		return ok
	}, func(tb *tampered, tx core.Transaction) bool {
		var rb map[core.Resource]core.ResourceBounds
		switch x := tx.(type) {
		case *core.InvokeTransaction:
			rb = x.ResourceBounds
		case *core.DeclareTransaction:
			rb = x.ResourceBounds
		case *core.DeployAccountTransaction:
			rb = x.ResourceBounds
		}
		b := rb[core.ResourceL1DataGas]
		b.MaxAmount++
		rb[core.ResourceL1DataGas] = b
		return true
	})
	field("v3.nonce_da_mode", v3, func(tb *tampered, tx core.Transaction) bool {
		switch x := tx.(type) {
		case *core.InvokeTransaction:
			x.NonceDAMode = 1 - x.NonceDAMode
		case *core.DeclareTransaction:
			x.NonceDAMode = 1 - x.NonceDAMode
		case *core.DeployAccountTransaction:
			x.NonceDAMode = 1 - x.NonceDAMode
		}
		return true
	})
	field("v3.fee_da_mode", v3, func(tb *tampered, tx core.Transaction) bool {
		switch x := tx.(type) {
		case *core.InvokeTransaction:
			x.FeeDAMode = 1 - x.FeeDAMode
		case *core.DeclareTransaction:
			x.FeeDAMode = 1 - x.FeeDAMode
		case *core.DeployAccountTransaction:
			x.FeeDAMode = 1 - x.FeeDAMode
		}
		return true
	})
	field("v3.paymaster_data_append", v3, func(tb *tampered, tx core.Transaction) bool {
		switch x := tx.(type) {
		case *core.InvokeTransaction:
			x.PaymasterData = append(x.PaymasterData, felt.One)
		case *core.DeclareTransaction:
			x.PaymasterData = append(x.PaymasterData, felt.One)
		case *core.DeployAccountTransaction:
			x.PaymasterData = append(x.PaymasterData, felt.One)
		}
		return true
	})
	field("v3.account_deployment_data_append", func(tx core.Transaction) bool {
		if !v3(tx) {
			return false
		}
		_, isDA := tx.(*core.DeployAccountTransaction)
		return !isDA
	}, func(tb *tampered, tx core.Transaction) bool {
		switch x := tx.(type) {
		case *core.InvokeTransaction:
			x.AccountDeploymentData = append(x.AccountDeploymentData, felt.One)
		case *core.DeclareTransaction:
			x.AccountDeploymentData = append(x.AccountDeploymentData, felt.One)
		}
		return true
	})
	field("invoke3.proof_facts", func(tx core.Transaction) bool {
		x, ok := tx.(*core.InvokeTransaction)
		return ok && x.Version.Is(3)
	}, func(tb *tampered, tx core.Transaction) bool {
		x := tx.(*core.InvokeTransaction)
		x.ProofFacts = append(x.ProofFacts, felt.One)
		return true
	})
	isDeclare := func(vs ...uint64) func(core.Transaction) bool {
		return func(tx core.Transaction) bool {
			x, ok := tx.(*core.DeclareTransaction)
			if !ok {
				return false
			}
			for _, v := range vs {
				if x.Version.Is(v) {
					return true
				}
			}
			return false
		}
	}
	field("declare.class_hash", isDeclare(1, 2, 3), func(tb *tampered, tx core.Transaction) bool {
		x := tx.(*core.DeclareTransaction)
		x.ClassHash = bump(x.ClassHash)
		return true
	})
	field("declare.compiled_class_hash", isDeclare(2, 3), func(tb *tampered, tx core.Transaction) bool {
		x := tx.(*core.DeclareTransaction)
		x.CompiledClassHash = bump(x.CompiledClassHash)
		return true
	})
	field("declare.sender", isDeclare(1, 2, 3), func(tb *tampered, tx core.Transaction) bool {
		x := tx.(*core.DeclareTransaction)
		x.SenderAddress = bump(x.SenderAddress)
		return true
	})
	isDA := func(tx core.Transaction) bool { _, ok := tx.(*core.DeployAccountTransaction); return ok }
	field("deploy_account.salt", isDA, func(tb *tampered, tx core.Transaction) bool {
		x := tx.(*core.DeployAccountTransaction)
		x.ContractAddressSalt = bump(x.ContractAddressSalt)
		return true
	})
	field("deploy_account.class_hash", isDA, func(tb *tampered, tx core.Transaction) bool {
		x := tx.(*core.DeployAccountTransaction)
		x.ClassHash = bump(x.ClassHash)
		return true
	})
	field("deploy_account.contract_address", isDA, func(tb *tampered, tx core.Transaction) bool {
		x := tx.(*core.DeployAccountTransaction)
		x.ContractAddress = bump(x.ContractAddress)
		return true
	})
	field("deploy_account.ctor_calldata_append", isDA, func(tb *tampered, tx core.Transaction) bool {
		x := tx.(*core.DeployAccountTransaction)
		x.ConstructorCallData = append(x.ConstructorCallData, felt.One)
		return true
	})
	isL1 := func(tx core.Transaction) bool { _, ok := tx.(*core.L1HandlerTransaction); return ok }
	field("l1_handler.nonce", isL1, func(tb *tampered, tx core.Transaction) bool {
		x := tx.(*core.L1HandlerTransaction)
		x.Nonce = bump(x.Nonce)
		return true
	})
	field("l1_handler.selector", isL1, func(tb *tampered, tx core.Transaction) bool {
		x := tx.(*core.L1HandlerTransaction)
		x.EntryPointSelector = bump(x.EntryPointSelector)
		return true
	})
	field("l1_handler.calldata0", isL1, func(tb *tampered, tx core.Transaction) bool {
		x := tx.(*core.L1HandlerTransaction)
		x.CallData[0] = *bump(&x.CallData[0])
		return true
	})
	return out
}

func receiptTamperings() []tampering {
	var out []tampering
	add := func(name string, f func(tb *tampered) bool) { out = append(out, tampering{"receipt." + name, f}) }
	pickRc := func(tb *tampered, pred func(*core.TransactionReceipt) bool) *core.TransactionReceipt {
		var idx []int
		for i, r := range tb.b.Receipts {
			if pred(r) {
				idx = append(idx, i)
			}
		}
		if len(idx) == 0 {
			return nil
		}
		return tb.b.Receipts[idx[tb.c.T.Draw("tamper.rc", len(idx))]]
	}
	all := func(*core.TransactionReceipt) bool { return true }
	add("fee", func(tb *tampered) bool {
		r := pickRc(tb, all)
		if r == nil {
			return false
		}
		r.Fee = bump(r.Fee)
		return true
	})
	add("tx_hash", func(tb *tampered) bool {
		r := pickRc(tb, all)
		if r == nil {
			return false
		}
		r.TransactionHash = bump(r.TransactionHash)
		return true
	})
	add("reverted_flag", func(tb *tampered) bool {
		r := pickRc(tb, all)
		if r == nil {
			return false
		}
		r.Reverted = !r.Reverted
		if r.Reverted && r.RevertReason == "" {
			r.RevertReason = "x"
		}
		return true
	})
	add("revert_reason", func(tb *tampered) bool {
		r := pickRc(tb, func(r *core.TransactionReceipt) bool { return r.Reverted })
		if r == nil {
			return false
		}
		r.RevertReason += "!"
		return true
	})
	add("l1_gas_consumed", func(tb *tampered) bool {
		r := pickRc(tb, all)
		if r == nil {
			return false
		}
		r.ExecutionResources.TotalGasConsumed.L1Gas++
		return true
	})
	add("l1_data_gas_consumed", func(tb *tampered) bool {
		r := pickRc(tb, all)
		if r == nil {
			return false
		}
		r.ExecutionResources.TotalGasConsumed.L1DataGas++
		return true
	})
	hasMsg := func(r *core.TransactionReceipt) bool { return len(r.L2ToL1Message) > 0 }
	add("message_to", func(tb *tampered) bool {
		r := pickRc(tb, hasMsg)
		if r == nil {
			return false
		}
		r.L2ToL1Message[0].To[19] ^= 1
		return true
	})
	add("message_from", func(tb *tampered) bool {
		r := pickRc(tb, hasMsg)
		if r == nil {
			return false
		}
		r.L2ToL1Message[0].From = bump(r.L2ToL1Message[0].From)
		return true
	})
	add("message_payload_append", func(tb *tampered) bool {
		r := pickRc(tb, hasMsg)
		if r == nil {
			return false
		}
		r.L2ToL1Message[0].Payload = append(r.L2ToL1Message[0].Payload, felt.Zero)
		return true
	})
	add("message_removed", func(tb *tampered) bool {
		r := pickRc(tb, hasMsg)
		if r == nil {
			return false
		}
		r.L2ToL1Message = r.L2ToL1Message[1:]
		return true
	})
	add("message_added", func(tb *tampered) bool {
		r := pickRc(tb, all)
		if r == nil {
			return false
		}
		r.L2ToL1Message = append(r.L2ToL1Message, &core.L2ToL1Message{From: felt.NewFromUint64[felt.Felt](1), Payload: []felt.Felt{}})
		return true
	})
	hasEv := func(r *core.TransactionReceipt) bool { return len(r.Events) > 0 }
	add("event_from", func(tb *tampered) bool {
		r := pickRc(tb, hasEv)
		if r == nil {
			return false
		}
		r.Events[0].From = bump(r.Events[0].From)
		return true
	})
	add("event_key", func(tb *tampered) bool {
		r := pickRc(tb, func(r *core.TransactionReceipt) bool { return hasEv(r) && len(r.Events[0].Keys) > 0 })
		if r == nil {
			return false
		}
		r.Events[0].Keys[0] = *bump(&r.Events[0].Keys[0])
		return true
	})
	add("event_key_moved_to_data", func(tb *tampered) bool {
		r := pickRc(tb, func(r *core.TransactionReceipt) bool { return hasEv(r) && len(r.Events[0].Keys) > 0 })
		if r == nil {
			return false
		}
		e := r.Events[0]
		n := len(e.Keys)
		e.Data = append([]felt.Felt{e.Keys[n-1]}, e.Data...)
		e.Keys = e.Keys[:n-1]
		return true
	})
	add("event_data_append", func(tb *tampered) bool {
		r := pickRc(tb, hasEv)
		if r == nil {
			return false
		}
		r.Events[0].Data = append(r.Events[0].Data, felt.Zero)
		return true
	})
	add("event_removed", func(tb *tampered) bool {
		r := pickRc(tb, hasEv)
		if r == nil {
			return false
		}
		r.Events = r.Events[1:]
		tb.b.EventCount--
		return true
	})
	add("event_moved_to_other_tx", func(tb *tampered) bool {
		if len(tb.b.Receipts) < 2 || len(tb.b.Receipts[0].Events) == 0 {
			return false
		}
		e := tb.b.Receipts[0].Events[0]
		tb.b.Receipts[0].Events = tb.b.Receipts[0].Events[1:]
		tb.b.Receipts[1].Events = append([]*core.Event{e}, tb.b.Receipts[1].Events...)
		return true
	})
	return out
}

func diffTamperings() []tampering {
	var out []tampering
	// variant A: only the diff changes (state-diff commitment in the block hash exposes it);
	// variant B: the block hash is re-derived, so only the state root check can expose it.
	add := func(name string, f func(tb *tampered) bool) {
		out = append(out, tampering{"diff." + name, f})
		out = append(out, tampering{"diff." + name + "_rehashed", func(tb *tampered) bool {
			if !f(tb) {
				return false
			}
			tb.rehashBlock()
			return true
		}})
	}
	firstAddr := func(m map[felt.Felt]map[felt.Felt]*felt.Felt) (felt.Felt, bool) {
		ks := refstate.SortedFelts(m)
		if len(ks) == 0 {
			return felt.Zero, false
		}
		return ks[0], true
	}
	add("storage_value", func(tb *tampered) bool {
		a, ok := firstAddr(tb.su.StateDiff.StorageDiffs)
		if !ok {
			return false
		}
		k := refstate.SortedFelts(tb.su.StateDiff.StorageDiffs[a])[0]
		tb.su.StateDiff.StorageDiffs[a][k] = bump(tb.su.StateDiff.StorageDiffs[a][k])
		return true
	})
	add("storage_entry_removed", func(tb *tampered) bool {
		a, ok := firstAddr(tb.su.StateDiff.StorageDiffs)
		if !ok {
			return false
		}
		k := refstate.SortedFelts(tb.su.StateDiff.StorageDiffs[a])[0]
		// removing a no-op write does not change the resulting state, but it does change the
		// committed diff; only the non-rehashed variant is then a tampering of a committed field
		delete(tb.su.StateDiff.StorageDiffs[a], k)
		if len(tb.su.StateDiff.StorageDiffs[a]) == 0 {
			delete(tb.su.StateDiff.StorageDiffs, a)
		}
		return true
	})
	add("nonce_value", func(tb *tampered) bool {
		ks := refstate.SortedFelts(tb.su.StateDiff.Nonces)
		if len(ks) == 0 {
			return false
		}
		tb.su.StateDiff.Nonces[ks[0]] = bump(tb.su.StateDiff.Nonces[ks[0]])
		return true
	})
	add("deployed_class", func(tb *tampered) bool {
		ks := refstate.SortedFelts(tb.su.StateDiff.DeployedContracts)
		if len(ks) == 0 {
			return false
		}
		tb.su.StateDiff.DeployedContracts[ks[0]] = bump(tb.su.StateDiff.DeployedContracts[ks[0]])
		return true
	})
	add("replaced_class", func(tb *tampered) bool {
		ks := refstate.SortedFelts(tb.su.StateDiff.ReplacedClasses)
		if len(ks) == 0 {
			return false
		}
		tb.su.StateDiff.ReplacedClasses[ks[0]] = bump(tb.su.StateDiff.ReplacedClasses[ks[0]])
		return true
	})
	add("declared_compiled_hash", func(tb *tampered) bool {
		ks := refstate.SortedFelts(tb.su.StateDiff.DeclaredV1Classes)
		if len(ks) == 0 {
			return false
		}
		tb.su.StateDiff.DeclaredV1Classes[ks[0]] = bump(tb.su.StateDiff.DeclaredV1Classes[ks[0]])
		return true
	})
	add("storage_entry_added", func(tb *tampered) bool {
		// a write to an existing contract that changes the state
		pre := tb.c
		_ = pre
		for _, a := range refstate.SortedFelts(tb.su.StateDiff.DeployedContracts) {
			m := tb.su.StateDiff.StorageDiffs[a]
			if m == nil {
				m = map[felt.Felt]*felt.Felt{}
				tb.su.StateDiff.StorageDiffs[a] = m
			}
			k := felt.FromUint64[felt.Felt](0xabcdef)
			m[k] = felt.NewFromUint64[felt.Felt](9)
			return true
		}
		return false
	})
	// Cairo 0 declarations touch neither trie: the state-diff commitment inside the block hash is
	// their only guard, so only the variants that keep the block hash are tamperings of a
	// committed field (with a re-derived hash the result is simply another block)
	out = append(out, tampering{"diff.declared_v0_class_replaced", func(tb *tampered) bool {
		v0 := tb.su.StateDiff.DeclaredV0Classes
		if len(v0) == 0 {
			return false
		}
		cp := append([]*felt.Felt(nil), v0...)
		cp[len(cp)-1] = bump(cp[len(cp)-1])
		tb.su.StateDiff.DeclaredV0Classes = cp
		return true
	}}, tampering{"diff.declared_v0_class_removed", func(tb *tampered) bool {
		v0 := tb.su.StateDiff.DeclaredV0Classes
		if len(v0) == 0 {
			return false
		}
		tb.su.StateDiff.DeclaredV0Classes = append([]*felt.Felt(nil), v0[1:]...)
		return true
	}})
	return out
}

func classTamperings() []tampering {
	return []tampering{
		{"class.sierra_definition", func(tb *tampered) bool {
			for _, h := range refstate.SortedFelts(tb.cls) {
				if sc, ok := tb.cls[h].(*core.SierraClass); ok {
					cp := *sc
					cp.AbiHash = bump(sc.AbiHash)
					tb.cls[h] = &cp
					return true
				}
			}
			return false
		}},
	}
}

var allTamperings = func() []tampering {
	var all []tampering
	all = append(all, headerTamperings()...)
	all = append(all, txTamperings()...)
	all = append(all, receiptTamperings()...)
	all = append(all, diffTamperings()...)
	all = append(all, classTamperings()...)
	return all
}()

// stateNeutral: removing a write that did not change the state and re-deriving the block hash yields
// another VALID block (same resulting state, consistent commitments) - not a tampering of the
// original's outcome. Those variants are skipped when the removed entry was a no-op.
func removedEntryWasNoop(b *chaingen.Block) bool {
	a := refstate.SortedFelts(b.SU.StateDiff.StorageDiffs)
	if len(a) == 0 {
		return false
	}
	ks := refstate.SortedFelts(b.SU.StateDiff.StorageDiffs[a[0]])
	if len(ks) == 0 {
		return false
	}
	k := ks[0]
	var old felt.Felt
	if c := b.Pre.Contracts[a[0]]; c != nil {
		old = c.Storage[k]
	}
	return old.Equal(b.SU.StateDiff.StorageDiffs[a[0]][k])
}

// legacyCommitted: the block hash family of before 0.13.2 commits number, state root, sequencer
// address, timestamp, transaction count and commitment (transaction hashes and signatures), event
// count and commitment (the block's events in order: emitter, keys, data - not which transaction
// emitted them) and the parent hash. Gas prices, DA mode, the version string, receipt fields other
// than events, and state-diff entries that do not change the state root are not committed, so
// changing them is not a tampering of a committed field for such a block.
func legacyCommitted(name string) bool {
	for _, p := range []string{
		"header.l1_gas_price_", "header.l1_data_gas_price_", "header.l2_gas_price_", "header.l1_da_mode", "header.protocol_version",
		"receipt.fee", "receipt.reverted_flag", "receipt.revert_reason", "receipt.l1_gas_consumed", "receipt.l1_data_gas_consumed",
		"receipt.message_", "receipt.event_moved_to_other_tx", "diff.declared_v0_class_",
	} {
		if strings.HasPrefix(name, p) {
			return false
		}
	}
	return true
}

// tryTampered pushes a tampered variant of b through the node's acceptance path and requires
// rejection without any side effect.
func tryTampered(c *sim.Ctx, n *Node, g *chaingen.Gen, b *chaingen.Block, tm tampering, m *Model) bool {
	tb := &tampered{c: c, g: g, b: CloneBlock(b.B), su: CloneStateUpdate(b.SU), ver: b.Version}
	tb.cls = map[felt.Felt]core.ClassDefinition{}
	for h, d := range b.Classes {
		tb.cls[h] = d
	}
	if tm.name == "diff.storage_entry_removed_rehashed" && removedEntryWasNoop(b) {
		return false
	}
	if chaingen.IsLegacy(b.Version) {
		if !legacyCommitted(tm.name) || (tm.name == "diff.storage_entry_removed" && removedEntryWasNoop(b)) {
			return false
		}
	}
	if !tm.apply(tb) {
		return false
	}
	before, err := faultdb.Image(n.FDB.Inner)
	c.Must(err, "image before tampered store")
	c.Logf("tampered %s of block %d offered", tm.name, b.B.Number)
	c.Fault("tamper_" + tm.name)
	accepted := func() (ok bool) {
		// a panic while judging an invalid block is a crash of the node, i.e. a violation
		comm, err := n.BC.SanityCheckNewHeight(tb.b, tb.su, tb.cls)
		if err != nil {
			return false
		}
		return n.BC.Store(tb.b, comm, tb.su, tb.cls) == nil
	}()
	c.Evals++
	if accepted {
		c.Fail("tampered_block_accepted", tm.name, "a block differing from the valid block %d (v%s) in committed field %q was stored", b.B.Number, b.Version, tm.name)
	}
	after, err := faultdb.Image(n.FDB.Inner)
	c.Must(err, "image after tampered store")
	oa, ob, ch := faultdb.Diff(before, after, 5)
	if len(oa)+len(ob)+len(ch) > 0 {
		c.Fail("rejected_block_left_traces", tm.name, "rejecting tampered block %d (%s) changed the database: removed=%d added=%d changed=%d keys (first: %x)", b.B.Number, tm.name, len(oa), len(ob), len(ch), append(append(oa, ob...), ch...)[0])
	}
	k := &checker{n: n, m: m}
	k.CheckHead()
	return true
}

// C02: a block is stored only if hash, linkage, tx hashes and state root all verify.
func C02(c *sim.Ctx) {
	t := c.T
	p := newPair(c, false)
	defer p.close()
	p.d.opts.MaxTxs = 2 + t.Draw("max.txs", 5)
	p.d.opts.MaxEvents = 1 + t.Draw("max.events", 3)
	p.d.opts.MaxDiff = 3 + t.Draw("max.diff", 7)
	n := func() *Node { return p.nodes[0] }
	if t.Draw("legacy.versions", 3) == 2 || c.Knobs["legacy"] != "" {
		// the chain starts in (or before) the pre-0.13.2 block hash family
		p.d.withLegacy()
		c.Probe("legacy_hash_family_schedule")
	}
	maxBlocks := 3 + t.Draw("max.blocks", 6)
	perBlock := 3 + t.Draw("tamperings.per.block", 6)
	if c.Tier == "thorough" && t.Draw("exhaustive", 3) == 0 {
		perBlock = len(allTamperings)
	}
	tried := map[string]bool{}
	// bounded: an exhausted (zero) tape must terminate too
	for iter := 0; len(p.m.Chain) < maxBlocks && iter < 3*maxBlocks; iter++ {
		b := p.d.next(p.m.Head())
		// tampered variants first: none may be stored
		if perBlock >= len(allTamperings) {
			for _, tm := range allTamperings {
				if tryTampered(c, n(), p.d.g, b, tm, p.m) {
					tried[tm.name] = true
				}
			}
		} else {
			for j := 0; j < perBlock; j++ {
				tm := allTamperings[t.Draw("tampering", len(allTamperings))]
				if tryTampered(c, n(), p.d.g, b, tm, p.m) {
					tried[tm.name] = true
				}
			}
		}
		// wrong position: an already stored block again, and a block that skips one
		if len(p.m.Chain) > 0 && t.Draw("dup", 3) == 0 {
			old := p.m.Chain[t.Draw("dup.which", len(p.m.Chain))]
			c.Logf("duplicate delivery of stored block %d", old.B.Number)
			c.Fault("duplicate_block")
			if err := n().StoreBlock(old); err == nil {
				c.Fail("stale_block_accepted", "duplicate", "already stored block %d was stored again on top of head %d", old.B.Number, p.m.Head().B.Number)
			}
			(&checker{n: n(), m: p.m}).CheckHead()
		}
		if t.Draw("skip", 4) == 0 {
			nb := p.d.g.Next(t, b, chaingen.Opts{Version: b.Version, MaxTxs: 1, MaxDiff: 1, Salt: 99})
			c.Logf("future block %d offered while head+1 is %d", nb.B.Number, b.B.Number)
			c.Fault("future_block")
			if err := n().StoreBlock(nb); err == nil {
				c.Fail("future_block_accepted", "skip", "block %d was stored although the head is below %d", nb.B.Number, b.B.Number)
			}
			(&checker{n: n(), m: p.m}).CheckHead()
		}
		// the valid block is accepted at every position
		c.Logf("store block %d v%s txs=%d diff=%s", b.B.Number, b.Version, len(b.B.Transactions), diffString(b))
		if err := n().StoreBlock(b); err != nil {
			c.Fail("valid_block_rejected", "store", "[%s] valid block %d (v%s) rejected after tampered variants were offered: %v", backendName(n()), b.B.Number, b.Version, err)
		}
		p.m.Chain = append(p.m.Chain, b)
		if chaingen.IsLegacy(b.Version) {
			c.Probe("legacy_hash_family_block_stored")
		}
		switch t.Draw("after", 8) {
		case 6:
			p.revert()
			// the block just reverted has passed every check of this node before: tampered twins of it
			// (same declared hash, same position) must be refused all the same
			for j := 0; j < 2+perBlock/2 && j < len(allTamperings); j++ {
				tm := allTamperings[t.Draw("tampering.twin", len(allTamperings))]
				if tryTampered(c, n(), p.d.g, b, tm, p.m) {
					tried[tm.name] = true
					c.Probe("tampered_twin_of_a_block_verified_before")
				}
			}
		case 7:
			p.restart(0, t.Draw("restart.graceful", 2) == 1)
		}
	}
	fullCheck(&checker{n: n(), m: p.m}, p.d.g, 3)
	names := make([]string, 0, len(tried))
	for k := range tried {
		names = append(names, k)
	}
	sort.Strings(names)
	for _, k := range names {
		c.Probe("tampering_" + k)
	}
	c.Sample = map[string]any{"tamperings_tried": names, "blocks": len(p.m.Chain)}
	c.Nontrivial = len(tried) >= 3
	_ = fmt.Sprint
}
