package node

import (
	"errors"
	"fmt"
	"math/rand/v2"
	"strings"
	"sync"
	"sync/atomic"

	"github.com/NethermindEth/juno/blockchain"
	"github.com/NethermindEth/juno/blockchain/networks"
	"github.com/NethermindEth/juno/core"
	"github.com/NethermindEth/juno/core/felt"
	"github.com/NethermindEth/juno/db"
	"github.com/NethermindEth/juno/db/memory"
	"github.com/NethermindEth/juno/db/pebblev2"
	_ "github.com/NethermindEth/juno/encoder/registry"
	"github.com/cockroachdb/pebble/v2"
	"github.com/cockroachdb/pebble/v2/vfs"
	"github.com/cockroachdb/pebble/v2/vfs/errorfs"

	"jsim/chaingen"
	"jsim/faultdb"
	"jsim/sim"
)

// Store is the simulated disk under one node: the repository's memory backend, or the repository's
// pebblev2 wrapper over real Pebble opened on Pebble's crashable in-memory file system.
type Store struct {
	Pebble bool
	mem    *memory.Database
	fs     *vfs.MemFS
	path   string
	kv     db.KeyValueStore

	// mid-commit capture (Pebble only): a crash clone is taken whenever a WAL file is about to be
	// synced, i.e. between the write and the fsync of a commit.
	TinyCache bool
	capture   bool
	capMu     sync.Mutex
	capRNG    *rand.Rand
	capPct    []int
	MidImages []*vfs.MemFS
}

var pathCounter atomic.Uint64

func pebbleOpts(fs vfs.FS, tinyCache bool) pebblev2.Option {
	return func(o *pebble.Options) error {
		o.FS = fs
		o.DisableAutomaticCompactions = true
		o.MemTableSize = 32 << 20
		o.CacheSize = 256 << 20
		o.L0StopWritesThreshold = 1 << 20 // compactions are off: never stall writes on the L0 file count
		if tinyCache {
			// every read of flushed data goes to the file: buffers handed to read callbacks are
			// recycled right after the callback returns
			o.CacheSize = 1
		}
		o.Logger = quietLogger{}
		return nil
	}
}

type quietLogger struct{}

func (quietLogger) Infof(string, ...any)  {}
func (quietLogger) Errorf(string, ...any) {}
func (quietLogger) Fatalf(f string, a ...any) {
	panic(fmt.Sprintf("pebble fatal: "+f, a...))
}

func NewStore(c *sim.Ctx, usePebble bool) *Store {
	s := &Store{Pebble: usePebble}
	if !usePebble {
		s.mem = memory.New()
		s.kv = s.mem
		return s
	}
	s.fs = vfs.NewCrashableMem()
	s.path = fmt.Sprintf("/jsim-nonexistent-%d/db", pathCounter.Add(1))
	c.Must(s.fs.MkdirAll(s.path, 0o755), "mkdir on memfs")
	// "the data directory exists durably": sync the directory chain, otherwise a strict crash
	// clone loses the whole directory, which says nothing about the database.
	for _, dir := range []string{"/", s.fs.PathDir(s.path), s.path} {
		d, err := s.fs.OpenDir(dir)
		c.Must(err, "open dir on memfs")
		c.Must(d.Sync(), "sync dir on memfs")
		c.Must(d.Close(), "close dir on memfs")
	}
	s.open(c)
	return s
}

// EnableCapture turns on mid-commit crash-clone capture (before the first commit).
func (s *Store) EnableCapture(seed uint64, pcts []int) {
	s.capture = true
	s.capRNG = rand.New(rand.NewPCG(seed, 0x5eed))
	s.capPct = pcts
}

// TakeMidImages returns and clears the captured mid-commit clones.
func (s *Store) TakeMidImages() []*vfs.MemFS {
	s.capMu.Lock()
	defer s.capMu.Unlock()
	out := s.MidImages
	s.MidImages = nil
	return out
}

func (s *Store) onOp(op errorfs.Op) error {
	if !s.capture {
		return nil
	}
	switch op.Kind {
	case errorfs.OpFileSync, errorfs.OpFileSyncData, errorfs.OpFileSyncTo:
	default:
		return nil
	}
	if !strings.HasSuffix(op.Path, ".log") {
		return nil
	}
	s.capMu.Lock()
	defer s.capMu.Unlock()
	for _, p := range s.capPct {
		s.MidImages = append(s.MidImages, s.fs.CrashClone(vfs.CrashCloneCfg{UnsyncedDataPercent: p, RNG: s.capRNG}))
	}
	return nil
}

// FromFS builds a store on a given (cloned) file system.
func (s *Store) FromFS(c *sim.Ctx, fs *vfs.MemFS) *Store {
	n := &Store{Pebble: true, path: s.path, fs: fs, TinyCache: s.TinyCache}
	n.open(c)
	return n
}

func (s *Store) open(c *sim.Ctx) {
	kv, err := pebblev2.New(s.path, pebbleOpts(errorfs.Wrap(s.fs, errorfs.InjectorFunc(s.onOp)), s.TinyCache))
	c.Must(err, "open pebble on memfs")
	s.kv = kv
}

// CrashImage returns an independent store holding exactly what is durable now (memory: a deep
// copy; Pebble: a crash clone of the file system keeping synced data only, reopened).
func (s *Store) CrashImage(c *sim.Ctx) *Store {
	if !s.Pebble {
		cp := s.mem.Copy()
		return &Store{mem: cp, kv: cp}
	}
	// the clone is opened when a node is opened on it (OpenNode): an open Pebble instance holds its
	// memtable arena and cache, and a run may keep dozens of images until it evaluates them
	n := &Store{Pebble: true, path: s.path, TinyCache: s.TinyCache}
	n.fs = s.fs.CrashClone(vfs.CrashCloneCfg{UnsyncedDataPercent: 0})
	return n
}

func (s *Store) Close() {
	if s.Pebble && s.kv != nil {
		_ = s.kv.Close()
	}
	s.kv = nil
}

// Node is one simulated juno node: the real blockchain.Blockchain on a fault-injecting wrapper of
// the store.
type Node struct {
	c        *sim.Ctx
	NewState bool
	St       *Store
	FDB      *faultdb.DB
	BC       *blockchain.Blockchain
	Net      *networks.Network
	Name     string
}

func OpenNode(c *sim.Ctx, st *Store, newState bool, name string) *Node {
	n := &Node{c: c, NewState: newState, St: st, Net: &networks.Sepolia, Name: name}
	if st.kv == nil && st.Pebble {
		st.open(c) // a crash image, opened on first use
	}
	n.FDB = faultdb.Wrap(st.kv)
	n.BC = blockchain.New(n.FDB, n.Net, blockchain.WithNewState(newState))
	return n
}

// Restart builds a fresh Blockchain (new caches, new running filter) on the same store. A graceful
// restart first persists the running event filter, as node shutdown does.
func (n *Node) Restart(graceful bool) *Node {
	if graceful {
		if err := n.BC.WriteRunningEventFilter(); err != nil {
			n.c.Logf("%s: WriteRunningEventFilter: %v", n.Name, err)
		}
	}
	if n.St.Pebble {
		// close and reopen the real Pebble instance
		n.c.Must(n.St.kv.Close(), "close pebble")
		n.St.open(n.c)
	}
	return OpenNode(n.c, n.St, n.NewState, n.Name)
}

// StoreBlock pushes a block through the node's acceptance path exactly as sync does:
// SanityCheckNewHeight then Store. The block is deep-copied first so the model's copy stays pristine.
func (n *Node) StoreBlock(b *chaingen.Block) error {
	blk, su, cls := CloneBlock(b.B), CloneStateUpdate(b.SU), b.Classes
	comm, err := n.BC.SanityCheckNewHeight(blk, su, cls)
	if err != nil {
		return fmt.Errorf("sanity check: %w", err)
	}
	return n.BC.Store(blk, comm, su, cls)
}

// StoreBlockResupplying is StoreBlock with the definition of an ALREADY STORED class handed over once
// more next to the block's new classes - what the pipelined sync does when it fetched the block while
// the class was still unknown (a block several heights ahead of the head): the class must stay as it
// was declared.
func (n *Node) StoreBlockResupplying(b *chaingen.Block, known map[felt.Felt]core.ClassDefinition) error {
	blk, su := CloneBlock(b.B), CloneStateUpdate(b.SU)
	cls := map[felt.Felt]core.ClassDefinition{}
	for h, d := range b.Classes {
		cls[h] = d
	}
	for h, d := range known {
		if _, dup := cls[h]; !dup {
			cls[h] = d
		}
	}
	comm, err := n.BC.SanityCheckNewHeight(blk, su, cls)
	if err != nil {
		return fmt.Errorf("sanity check: %w", err)
	}
	return n.BC.Store(blk, comm, su, cls)
}

// TestSigner is the deterministic block signer of the sequencer path.
func TestSigner(blockHash, stateDiffCommitment *felt.Felt) ([]*felt.Felt, error) {
	var r, s felt.Felt
	r.Add(blockHash, felt.NewFromUint64[felt.Felt](1))
	s.Add(stateDiffCommitment, felt.NewFromUint64[felt.Felt](2))
	return []*felt.Felt{&r, &s}, nil
}

// SignedVariant gives the block the signature the sequencer path will produce for it (the
// signature is not part of the block hash).
func SignedVariant(b *chaingen.Block) {
	comm := b.SU.StateDiff.Commitment()
	sig, _ := TestSigner(b.B.Hash, &comm)
	b.B.Signatures = [][]*felt.Felt{sig}
}

// FinaliseBlock pushes a block through the node's sequencer path: the node is handed the block
// without hash, state root and signature, derives them itself, signs and stores it. What it
// derived must be what the reference model and the protocol hash function say (b must be a
// SignedVariant).
func (n *Node) FinaliseBlock(b *chaingen.Block) error {
	blk, su, cls := CloneBlock(b.B), CloneStateUpdate(b.SU), b.Classes
	blk.Hash, blk.GlobalStateRoot, blk.Signatures = nil, nil, nil
	// the caller supplies the root it builds on (the new state backend opens the state at it)
	su.BlockHash, su.NewRoot = nil, nil
	if err := n.BC.Finalise(blk, su, cls, TestSigner); err != nil {
		return err
	}
	if got, want := canon(blk), canon(b.B); got != want {
		n.c.Fail("finalise_differs", "block", "[%s%s] the block the node finalised differs from the expected one (block %d v%s):\n got  %s\n want %s", n.Name, backendName(n), b.B.Number, b.Version, got, want)
	}
	if got, want := canon(su), canon(b.SU); got != want {
		n.c.Fail("finalise_differs", "state_update", "[%s%s] the state update the node finalised differs from the expected one (block %d v%s):\n got  %s\n want %s", n.Name, backendName(n), b.B.Number, b.Version, got, want)
	}
	return nil
}

func (n *Node) Height() (uint64, bool) {
	h, err := n.BC.Height()
	if err != nil {
		if errors.Is(err, db.ErrKeyNotFound) {
			return 0, false
		}
		n.c.Fail("height_error", "Height", "%s: Height(): %v", n.Name, err)
	}
	return h, true
}

func feltStr(f *felt.Felt) string {
	if f == nil {
		return "nil"
	}
	return f.String()
}

var _ = core.Block{}
