package node

import (
	"github.com/NethermindEth/juno/core"
	"github.com/NethermindEth/juno/core/felt"
	"github.com/NethermindEth/juno/l1/eth"

	"jsim/chaingen"
	"jsim/sim"
)

type ethHash = eth.Hash

// chainDriver generates blocks and forks from the tape and keeps the version schedule.
type chainDriver struct {
	c       *sim.Ctx
	g       *chaingen.Gen
	verIdx  int
	forkID  uint64
	opts    chaingen.Opts
	bumpDen int
	// versions is the ascending schedule blocks pick their protocol version from
	versions []string
}

func newChainDriver(c *sim.Ctx) *chainDriver {
	d := &chainDriver{c: c, g: chaingen.New(), versions: chaingen.Versions}
	d.verIdx = c.T.Draw("version0", len(chaingen.Versions))
	d.bumpDen = 3 + c.T.Draw("version.bump", 6)
	d.opts = chaingen.Opts{MaxTxs: 1 + c.T.Draw("max.txs", 5), MaxDiff: 2 + c.T.Draw("max.diff", 8), MaxEvents: c.T.Draw("max.events", 4)}
	return d
}

// next generates the successor of parent on the current fork.
func (d *chainDriver) next(parent *chaingen.Block) *chaingen.Block {
	// versions never decrease along a chain
	if parent != nil {
		for i, v := range d.versions {
			if v == parent.Version && i > d.verIdx {
				d.verIdx = i
			}
		}
	}
	if d.verIdx < len(d.versions)-1 && d.c.T.Draw("version.up", d.bumpDen) == d.bumpDen-1 {
		// The commitment formula changes at 0.14.0 only for states whose class trie is empty. A chain
		// that crosses that boundary with an empty class trie has an ill-defined "old root" (the
		// parent's root was computed with the old formula); real networks crossed it with classes
		// declared. The generator therefore crosses only when a Sierra class exists (DESIGN.md §6).
		crossing := d.versions[d.verIdx] < "0.14.0" && d.versions[d.verIdx+1] >= "0.14.0"
		if !crossing || (parent != nil && len(parent.Post.ClassLeaves()) > 0) {
			d.verIdx++
		}
	}
	o := d.opts
	o.Version = d.versions[d.verIdx]
	o.Salt = d.forkID
	return d.g.Next(d.c.T, parent, o)
}

func (d *chainDriver) newFork() { d.forkID++ }

func (d *chainDriver) verIndex(v string) int {
	for i, x := range d.versions {
		if x == v {
			return i
		}
	}
	return 0
}

// withLegacy extends the schedule by the versions of the pre-0.13.2 block hash family (only for
// harnesses that know which fields that family commits) and redraws the starting version.
func (d *chainDriver) withLegacy() {
	d.versions = chaingen.AllVersions
	d.verIdx = d.c.T.Draw("version0.legacy", len(d.versions))
}

// rewindVersion makes the version schedule consistent with a fork point.
func (d *chainDriver) rewindTo(parent *chaingen.Block) {
	if parent == nil {
		d.verIdx = d.c.T.Draw("version0", len(d.versions))
		return
	}
	d.verIdx = d.verIndex(parent.Version)
}

func l1HeadFor(b *chaingen.Block) *core.L1Head {
	return &core.L1Head{BlockNumber: b.B.Number, BlockHash: b.B.Hash, StateRoot: b.B.GlobalStateRoot}
}

var _ = felt.Zero
