package node

import (
	"fmt"
	"strings"

	"github.com/NethermindEth/juno/core"
	"github.com/NethermindEth/juno/core/felt"

	"jsim/chaingen"
	"jsim/refstate"
	"jsim/sim"
)

// pair runs the legacy and the new state backend in lock-step on the same block sequence.
type pair struct {
	c     *sim.Ctx
	nodes []*Node
	m     *Model
	d     *chainDriver
	// sequencer: some blocks carry a signature, and some of those enter through the sequencer
	// path (Finalise with a signer) instead of the sync path
	sequencer bool
	// optional hooks around a store / revert (C09: a reader's query inside the writer's pending commit);
	// each returns the function that disarms it
	aroundStore  func(b *chaingen.Block) func()
	aroundRevert func() func()
}

func newPair(c *sim.Ctx, both bool) *pair {
	p := &pair{c: c, m: &Model{}, d: newChainDriver(c)}
	usePebble := c.T.Draw("pebble", 4) == 3
	if both {
		p.nodes = []*Node{
			OpenNode(c, NewStore(c, usePebble), false, "A"),
			OpenNode(c, NewStore(c, usePebble), true, "B"),
		}
	} else {
		p.nodes = []*Node{OpenNode(c, NewStore(c, usePebble), c.T.Draw("newstate", 2) == 1, "A")}
	}
	c.Logf("config backends=%d pebble=%v opts=%+v", len(p.nodes), usePebble, p.d.opts)
	return p
}

func (p *pair) close() {
	for _, n := range p.nodes {
		n.St.Close()
	}
}

// store generates and stores the next block on every node; a valid block must be accepted.
func (p *pair) store() *chaingen.Block {
	b := p.d.next(p.m.Head())
	p.c.Logf("store block %d v%s hash=%s txs=%d diff=%s", b.B.Number, b.Version, short(b.B.Hash), len(b.B.Transactions), diffString(b))
	finalise := false
	if p.sequencer {
		switch p.c.T.Draw("block.path", 4) {
		case 2:
			SignedVariant(b)
			p.c.Probe("signed_block_synced")
		case 3:
			SignedVariant(b)
			finalise = true
			p.c.Logf("block %d enters through the sequencer path", b.B.Number)
			p.c.Probe("block_finalised_with_signer")
		}
	}
	for _, n := range p.nodes {
		var err error
		disarm := func() {}
		if p.aroundStore != nil {
			disarm = p.aroundStore(b)
		}
		if finalise {
			err = n.FinaliseBlock(b)
		} else {
			err = n.StoreBlock(b)
		}
		disarm()
		if err != nil {
			p.c.Fail("valid_block_rejected", "store", "[%s%s] valid block %d (v%s) rejected (sequencer path %v): %v", n.Name, backendName(n), b.B.Number, b.Version, finalise, err)
		}
	}
	p.m.Chain = append(p.m.Chain, b)
	return b
}

func (p *pair) revert() {
	h := p.m.Head()
	p.c.Logf("revert block %d", h.B.Number)
	for _, n := range p.nodes {
		disarm := func() {}
		if p.aroundRevert != nil {
			disarm = p.aroundRevert()
		}
		err := n.BC.RevertHead()
		disarm()
		if err != nil {
			p.c.Fail("revert_failed", revertKey(h), "[%s%s] RevertHead of stored block %d failed: %v", n.Name, backendName(n), h.B.Number, err)
		}
	}
	p.m.Chain = p.m.Chain[:len(p.m.Chain)-1]
	p.m.Reverted = append(p.m.Reverted, h)
	p.d.newFork()
	p.d.rewindTo(p.m.Head())
	p.c.Fault("revert")
}

// revertKey classifies the block content for known-finding matching.
func revertKey(b *chaingen.Block) string {
	noop := false
	for a, slots := range b.SU.StateDiff.StorageDiffs {
		pc := b.Pre.Contracts[a]
		for k, v := range slots {
			var cur = v
			_ = cur
			if pc == nil {
				if v.IsZero() {
					noop = true
				}
				continue
			}
			old := pc.Storage[k]
			if old.Equal(v) {
				noop = true
			}
		}
	}
	if noop {
		return "revert_block_with_noop_storage_write"
	}
	return "revert"
}

func (p *pair) restart(i int, graceful bool) {
	p.c.Logf("restart node %d graceful=%v", i, graceful)
	p.nodes[i] = p.nodes[i].Restart(graceful)
	if graceful {
		p.c.Fault("graceful_restart")
	} else {
		p.c.Fault("ungraceful_restart")
	}
}

func short(f interface{ String() string }) string {
	s := f.String()
	if len(s) > 12 {
		return s[:12]
	}
	return s
}

// heldView is a historical state view kept open across later operations.
type heldView struct {
	node    int
	on      *Node
	num     int
	hash    *felt.Felt
	wasHead bool
	name    string
	r       core.StateReader
	closer  func() error
}

// C03: head and historical state reads equal the state as of the requested block.
func C03(c *sim.Ctx) {
	p := newPair(c, true)
	defer p.close()
	t := c.T
	maxBlocks := 4 + t.Draw("max.blocks", 9)
	steps := 6 + t.Draw("steps", 20)
	reverts, restarts := 0, 0
	var held []*heldView
	defer func() {
		for _, h := range held {
			_ = h.closer()
		}
	}()
	for s := 0; s < steps; s++ {
		op := t.Draw("op", 10)
		if op > 7 && len(p.m.Chain) != 0 {
			// a restart closes the database under every open view
			for _, h := range held {
				_ = h.closer()
			}
			held = nil
		}
		switch {
		case op <= 5 || len(p.m.Chain) == 0:
			if len(p.m.Chain) >= maxBlocks {
				continue
			}
			p.store()
		case op <= 7:
			p.revert()
			reverts++
			if len(p.m.Chain) == 0 {
				c.Probe("revert_to_empty_chain")
			}
		default:
			p.restart(t.Draw("restart.node", len(p.nodes)), t.Draw("restart.graceful", 2) == 1)
			restarts++
		}
		// views taken at an earlier quiescent point and kept open: as long as their block is still in the
		// chain they are reads "at that block" whatever was stored on top meanwhile
		kept := held[:0]
		for _, h := range held {
			if h.num < len(p.m.Chain) && p.m.Chain[h.num].B.Hash.Equal(h.hash) && p.nodes[h.node] == h.on {
				k := &checker{n: h.on, m: p.m}
				k.checkReaders(p.m.Chain[h.num], map[string]core.StateReader{h.name: h.r}, p.d.g)
				c.Probe("held_view_read_again")
				if h.num < len(p.m.Chain)-1 && h.wasHead {
					c.Probe("held_view_of_former_head_read_after_head_advanced")
				}
				kept = append(kept, h)
			} else {
				_ = h.closer()
			}
		}
		held = kept
		for ni, n := range p.nodes {
			k := &checker{n: n, m: p.m}
			k.CheckHead()
			k.CheckAbsent()
			if len(p.m.Chain) == 0 {
				continue
			}
			if len(held) < 3 && t.Chance("hold.view", 1, 4) {
				// biased to the head: a view of the head block that outlives the head
				last := len(p.m.Chain) - 1
				num := last
				if t.Chance("hold.older", 1, 3) {
					num = t.Draw("hold.block", last+1)
				}
				hb := p.m.Chain[num]
				hv := &heldView{node: ni, on: n, num: num, hash: hb.B.Hash, wasHead: num == last}
				var err error
				if t.Chance("hold.byhash", 1, 2) {
					hv.name = "HeldStateAtBlockHash"
					hv.r, hv.closer, err = n.BC.StateAtBlockHash(hb.B.Hash)
				} else {
					hv.name = "HeldStateAtBlockNumber"
					hv.r, hv.closer, err = n.BC.StateAtBlockNumber(hb.B.Number)
				}
				if err != nil {
					k.fail("state", "StateAtBlock_for_held_view", "state view of block %d: %v", hb.B.Number, err)
				}
				c.Logf("hold a view of block %d on node %s (%s)", hb.B.Number, n.Name, hv.name)
				// used once right away (a view is typically read more than once)
				k.checkReaders(hb, map[string]core.StateReader{hv.name: hv.r}, p.d.g)
				held = append(held, hv)
			}
			k.CheckRoot()
			last := len(p.m.Chain) - 1
			k.CheckStateAt(last, p.d.g, true)
			if c.Tier == "thorough" {
				for i := 0; i < last; i++ {
					k.CheckStateAt(i, p.d.g, false)
				}
			} else {
				for j := 0; j < 2 && last > 0; j++ {
					k.CheckStateAt(t.Draw("query.block", last), p.d.g, false)
				}
			}
		}
	}
	c.Nontrivial = reverts > 0 && len(p.m.Chain) > 1
	_ = restarts
}

// diffString renders a state diff compactly and deterministically for the trace.
func diffString(b *chaingen.Block) string {
	d := b.SU.StateDiff
	var sb strings.Builder
	for _, a := range refstate.SortedFelts(d.DeployedContracts) {
		fmt.Fprintf(&sb, " deploy(%s cls=%s)", short(&a), short(d.DeployedContracts[a]))
	}
	for _, a := range refstate.SortedFelts(d.ReplacedClasses) {
		fmt.Fprintf(&sb, " replace(%s cls=%s)", short(&a), short(d.ReplacedClasses[a]))
	}
	for _, a := range refstate.SortedFelts(d.Nonces) {
		fmt.Fprintf(&sb, " nonce(%s=%s)", short(&a), short(d.Nonces[a]))
	}
	for _, a := range refstate.SortedFelts(d.StorageDiffs) {
		for _, k := range refstate.SortedFelts(d.StorageDiffs[a]) {
			fmt.Fprintf(&sb, " sstore(%s[%s]=%s)", short(&a), short(&k), short(d.StorageDiffs[a][k]))
		}
	}
	for _, h := range d.DeclaredV0Classes {
		fmt.Fprintf(&sb, " declare0(%s)", short(h))
	}
	for _, h := range refstate.SortedFelts(d.DeclaredV1Classes) {
		fmt.Fprintf(&sb, " declare1(%s)", short(&h))
	}
	mig := map[felt.Felt]bool{}
	for h := range d.MigratedClasses {
		mig[felt.Felt(h)] = true
	}
	for _, h := range refstate.SortedFelts(mig) {
		fmt.Fprintf(&sb, " migrate(%s)", short(&h))
	}
	if sb.Len() == 0 {
		return "{}"
	}
	return "{" + sb.String()[1:] + "}"
}
