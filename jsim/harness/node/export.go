package node

import (
	"jsim/chaingen"
	"jsim/sim"
)

// Exported helpers for other harness packages (rpc world, sync world ...).

type ChainDriver = chainDriver

func NewChainDriver(c *sim.Ctx) *ChainDriver { return newChainDriver(c) }

// Next generates the successor of parent (nil: genesis) on the current fork.
func (d *chainDriver) Next(parent *chaingen.Block) *chaingen.Block { return d.next(parent) }

// NewFork makes subsequently generated blocks differ from earlier ones at the same height.
func (d *chainDriver) NewFork() { d.newFork() }

// RewindTo re-aligns the protocol-version schedule with a fork point.
func (d *chainDriver) RewindTo(parent *chaingen.Block) { d.rewindTo(parent) }

func (d *chainDriver) Gen() *chaingen.Gen   { return d.g }
func (d *chainDriver) Opts() *chaingen.Opts { return &d.opts }

// Checker is the observational oracle of the node world against a Model.
type Checker = checker

func NewChecker(n *Node, m *Model) *Checker { return &checker{n: n, m: m} }

// Canon renders a value structurally (nil and empty slices/maps identified, nil pointers kept).
func Canon(x any) string { return canon(x) }

func FirstDiff(a, b string) string { return firstDiff(a, b) }

func DiffString(b *chaingen.Block) string { return diffString(b) }
