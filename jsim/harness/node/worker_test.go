package node

import (
	"testing"

	"jsim/sim"
)

func TestWorker(t *testing.T) {
	sim.WorkerMain(t, map[string]sim.Harness{
		"C01": C01,
		"C02": C02,
		"C03": C03,
		"C04": C04,
		"C05": C05,
		"C07": C07,
		"C09": C09,
		"C16": C16,
	}, map[string]sim.Options{
		"C01": {PanicIsViolation: true},
		"C02": {PanicIsViolation: true},
		"C03": {PanicIsViolation: true},
		"C04": {PanicIsViolation: true},
		"C05": {PanicIsViolation: true},
		"C07": {PanicIsViolation: true},
		"C09": {PanicIsViolation: true},
		"C16": {PanicIsViolation: true, Bubble: true},
	})
}
