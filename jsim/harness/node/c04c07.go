package node

import (
	"fmt"
	"sort"

	"github.com/NethermindEth/juno/core/felt"

	"jsim/chaingen"
	"jsim/faultdb"
	"jsim/sim"
)

// genFilter draws an event filter over the generator's alphabets.
func genFilter(c *sim.Ctx, g *chaingen.Gen, head uint64) evFilter {
	t := c.T
	var f evFilter
	for i := 0; i < 4; i++ {
		if t.Draw("f.addr", 4) == 0 {
			f.addrs = append(f.addrs, g.Addrs[i])
		}
	}
	npos := t.Draw("f.npos", 4)
	for i := 0; i < npos; i++ {
		var alts []felt.Felt
		for j := range g.EKeys {
			if t.Draw("f.key", 3) == 0 {
				alts = append(alts, g.EKeys[j])
			}
		}
		f.keys = append(f.keys, alts)
	}
	// trailing empty positions are trimmed: whether "[[A],[]]" matches an event with a single key is
	// not fixed by the specification, so such filters are not generated
	for len(f.keys) > 0 && len(f.keys[len(f.keys)-1]) == 0 {
		f.keys = f.keys[:len(f.keys)-1]
	}
	f.from = uint64(t.Draw("f.from", int(head)+1))
	f.to = f.from + uint64(t.Draw("f.span", int(head-f.from)+2))
	if t.Draw("f.full", 3) == 0 {
		f.from, f.to = 0, head
	}
	return f
}

var evChunks = []uint64{1, 2, 3, 7, 1000}
var evLimits = []uint{0, 1, 2, 5}

// fullCheck runs every observational oracle of the node world against the model.
func fullCheck(k *checker, g *chaingen.Gen, nFilters int) {
	k.CheckHead()
	k.CheckAbsent()
	if len(k.m.Chain) == 0 {
		return
	}
	k.CheckRoot()
	floor := k.m.Floor // blocks below it may have been pruned (entitled floor of the last prune)
	for i, b := range k.m.Chain {
		if uint64(i) < floor {
			k.CheckBelowFloor(b, false)
			if uint64(i)+1 < floor {
				k.CheckStateErrorOrCorrect(i, g)
				continue
			}
		} else {
			k.CheckBlock(b)
		}
		// historical state from one block below the floor upwards
		k.CheckStateAt(i, g, i == len(k.m.Chain)-1)
	}
	c := k.n.c
	head := k.m.Head().B.Number
	for i := 0; i < nFilters; i++ {
		f := genFilter(c, g, head)
		if f.from < floor {
			f.from = floor
		}
		if f.to < f.from {
			f.to = head
		}
		ch := evChunks[c.T.Draw("ev.chunk", len(evChunks))]
		lim := evLimits[c.T.Draw("ev.limit", len(evLimits))]
		k.CheckEvents(f, []uint64{ch, 1000}, []uint{lim})
	}
}

// C07: everything stored for a block is returned unchanged by every accessor.
func C07(c *sim.Ctx) {
	p := newPair(c, false)
	defer p.close()
	t := c.T
	p.sequencer = t.Draw("sequencer", 3) == 2
	if st := p.nodes[0].St; st.Pebble && t.Draw("pebble.tinycache", 2) == 1 {
		// reopen the (still empty) store without a block cache
		st.TinyCache = true
		p.nodes[0] = p.nodes[0].Restart(false)
		c.Probe("pebble_without_block_cache")
	}
	hugeAt := -1
	if t.Draw("huge.class", 12) == 11 {
		hugeAt = t.Draw("huge.class.block", 4)
	}
	p.d.opts.MaxTxs = 2 + t.Draw("max.txs", 7)
	p.d.opts.MaxEvents = 1 + t.Draw("max.events", 4)
	maxBlocks := 3 + t.Draw("max.blocks", 8)
	steps := 4 + t.Draw("steps", 16)
	kinds := map[string]bool{}
	reverts := 0
	for s := 0; s < steps; s++ {
		op := t.Draw("op", 10)
		switch {
		case op <= 6 || len(p.m.Chain) == 0:
			if len(p.m.Chain) >= maxBlocks {
				continue
			}
			if len(p.m.Chain) == hugeAt {
				// a Sierra class whose program is longer than the CBOR library's default array limit
				p.d.opts.HugeProgram = []int{131072, 131073, 200000}[t.Draw("huge.class.len", 3)]
				c.Probe("huge_sierra_program")
			}
			b := p.store()
			p.d.opts.HugeProgram = 0
			for _, tx := range b.B.Transactions {
				kinds[fmt.Sprintf("%T/v%s", tx, tx.TxVersion().String())] = true
			}
			if len(b.B.Transactions) == 0 {
				c.Probe("empty_block")
			}
		case op == 7:
			if len(p.m.Chain) >= 2 && t.Draw("revert.races.reader", 3) == 2 {
				racedReorg(p)
			} else {
				p.revert()
			}
			reverts++
		default:
			p.restart(0, t.Draw("restart.graceful", 2) == 1)
		}
		k := &checker{n: p.nodes[0], m: p.m}
		k.CheckHead()
		k.CheckAbsent()
		for _, b := range p.m.Chain {
			k.CheckBlock(b)
		}
		if n := len(p.m.Chain); n > 0 {
			k.CheckStateAt(n-1, p.d.g, true) // declared classes read back through the state
		}
	}
	for kind := range kinds {
		c.Probe("txkind_" + kind)
	}
	c.Nontrivial = len(kinds) >= 3 && len(p.m.Chain) >= 2
}

// racedReorg: a reader of the head block is overtaken by a reorg. Right after one of the reader's
// database reads has returned (tape-chosen), the head is reverted and a block of another fork is
// stored at the same height; then the reader goes on with what it had read. What the overtaken
// read returns is not judged (the old answer, the new one or an error are all linearisable); what
// every LATER read returns is: it must describe the chain the node now holds (the per-step checks
// that follow compare every accessor with the model).
func racedReorg(p *pair) {
	c, t := p.c, p.c.T
	if t.Draw("race.cold", 2) == 1 {
		// a fresh process: whatever the node caches in memory is cold, so the reader goes to the database
		p.restart(0, true)
	}
	n := p.nodes[0]
	h := p.m.Head()
	num := h.B.Number
	var read func()
	kind := t.Draw("race.accessor", 4)
	switch {
	case kind == 1 && len(h.B.Transactions) > 0:
		tx := h.B.Transactions[t.Draw("race.tx", len(h.B.Transactions))]
		read = func() { _, _, _, _ = n.BC.Receipt(tx.Hash()) }
	case kind == 2 && len(h.B.Transactions) > 0:
		i := uint64(t.Draw("race.tx", len(h.B.Transactions)))
		read = func() { _, _ = n.BC.TransactionByBlockNumberAndIndex(num, i) }
	case kind == 3:
		read = func() { _, _ = n.BC.BlockByNumber(num) }
	default:
		read = func() { _, _ = n.BC.BlockHeaderHashByNumber(num) }
	}
	at, reads, done := 1+t.Draw("race.after.read", 4), 0, false
	n.FDB.Plan.AfterRead = func(string) {
		reads++
		if done || reads != at {
			return
		}
		done = true
		n.FDB.Plan.AfterRead = nil
		c.Logf("  reorg overtakes the reader after its read %d", reads)
		p.revert()
		p.store()
		c.Fault("reorg_inside_reader")
	}
	c.Logf("reader (accessor %d) of head block %d raced by a reorg", kind, num)
	read()
	n.FDB.Plan.AfterRead = nil
	if !done {
		// the accessor made fewer reads than drawn: plain reorg
		p.revert()
		p.store()
	} else {
		c.Probe("reader_overtaken_by_reorg")
	}
}

// C04: reverting the head exactly undoes a block; forks converge to the same node.
func C04(c *sim.Ctx) {
	t := c.T
	d := newChainDriver(c)
	d.opts.MaxEvents = 1 + t.Draw("max.events", 3)
	usePebble := t.Draw("pebble", 4) == 3
	newState := t.Draw("newstate", 2) == 1
	A := OpenNode(c, NewStore(c, usePebble), newState, "A(fork-then-revert)")
	B := OpenNode(c, NewStore(c, usePebble), newState, "B(direct)")
	defer func() { A.St.Close(); B.St.Close() }()
	c.Logf("config newstate=%v pebble=%v opts=%+v", newState, usePebble, d.opts)
	mA, mB := &Model{}, &Model{}

	storeOn := func(n *Node, m *Model, b *chaingen.Block) {
		if err := n.StoreBlock(b); err != nil {
			c.Fail("valid_block_rejected", "store", "[%s%s] valid block %d (v%s) rejected: %v", n.Name, backendName(n), b.B.Number, b.Version, err)
		}
		m.Chain = append(m.Chain, b)
	}
	maybeRestartA := func() {
		if t.Draw("A.restart", 6) == 0 {
			g := t.Draw("A.graceful", 2) == 1
			c.Logf("restart A graceful=%v", g)
			A = A.Restart(g)
			if g {
				c.Fault("graceful_restart")
			} else {
				c.Fault("ungraceful_restart")
			}
		}
	}

	// common prefix P
	np := t.Draw("prefix.len", 7)
	for i := 0; i < np; i++ {
		b := d.next(mA.Head())
		c.Logf("prefix block %d v%s diff=%s", b.B.Number, b.Version, diffString(b))
		storeOn(A, mA, b)
		storeOn(B, mB, b)
		maybeRestartA()
	}
	// fork X on A only
	d.newFork()
	forkPoint := mA.Head()
	nx := 1 + t.Draw("fork.x.len", 5)
	for i := 0; i < nx; i++ {
		b := d.next(mA.Head())
		c.Logf("fork X block %d v%s diff=%s", b.B.Number, b.Version, diffString(b))
		storeOn(A, mA, b)
		maybeRestartA()
	}
	// A queries events before the revert so that the bloom cache is warm
	if t.Draw("warm", 2) == 1 && len(mA.Chain) > 0 {
		(&checker{n: A, m: mA}).CheckEvents(genFilter(c, d.g, mA.Head().B.Number), []uint64{1000}, []uint{0})
	}
	// revert X (sometimes deeper than X: down into the prefix, which B then also reverts)
	extra := 0
	if np > 0 && t.Draw("revert.deeper", 4) == 0 {
		extra = 1 + t.Draw("revert.extra", np)
	}
	for i := 0; i < nx+extra; i++ {
		h := mA.Head()
		c.Logf("A reverts block %d", h.B.Number)
		if err := A.BC.RevertHead(); err != nil {
			c.Fail("revert_failed", revertKey(h), "[%s%s] RevertHead of stored block %d failed: %v", A.Name, backendName(A), h.B.Number, err)
		}
		mA.Chain = mA.Chain[:len(mA.Chain)-1]
		mA.Reverted = append(mA.Reverted, h)
		c.Fault("revert")
		maybeRestartA()
		if i == nx-1 {
			// (2) after reverting X, A is observationally a node that stored only P
			c.Logf("check: A after reverting X equals a node that stored only P")
			fullCheck(&checker{n: A, m: mA}, d.g, 3)
		}
	}
	for i := 0; i < extra; i++ {
		h := mB.Head()
		if err := B.BC.RevertHead(); err != nil {
			c.Fail("revert_failed", revertKey(h), "[%s%s] RevertHead of stored block %d failed: %v", B.Name, backendName(B), h.B.Number, err)
		}
		mB.Chain = mB.Chain[:len(mB.Chain)-1]
		mB.Reverted = append(mB.Reverted, h)
	}
	if len(mA.Chain) == 0 {
		c.Probe("revert_to_empty_chain")
	}
	_ = forkPoint
	// fork Y on both
	d.newFork()
	d.rewindTo(mA.Head())
	ny := 1 + t.Draw("fork.y.len", 5)
	for i := 0; i < ny; i++ {
		b := d.next(mA.Head())
		c.Logf("fork Y block %d v%s diff=%s", b.B.Number, b.Version, diffString(b))
		storeOn(A, mA, b)
		storeOn(B, mB, b)
		maybeRestartA()
	}
	// X's blocks are unknown to both
	mB.Reverted = append(mB.Reverted, mA.Reverted...)
	c.Logf("check: A (followed X, reverted, followed Y) equals B (followed Y directly)")
	fullCheck(&checker{n: A, m: mA}, d.g, 4)
	fullCheck(&checker{n: B, m: mB}, d.g, 4)
	residue(c, A, B)
	// residue that would corrupt later updates becomes visible when the same blocks follow on both
	nz := t.Draw("tail.len", 4)
	for i := 0; i < nz; i++ {
		b := d.next(mA.Head())
		c.Logf("tail block %d v%s diff=%s", b.B.Number, b.Version, diffString(b))
		storeOn(A, mA, b)
		storeOn(B, mB, b)
	}
	if nz > 0 {
		fullCheck(&checker{n: A, m: mA}, d.g, 2)
		fullCheck(&checker{n: B, m: mB}, d.g, 2)
	}
	c.Nontrivial = true
}

// residue diffs the two databases. Differences are NOT violations (unreachable trie nodes, bloom
// window supersets and the shutdown-only filter snapshot are legitimate); they are reported per
// bucket as probes so that evidence shows what residue a revert leaves.
func residue(c *sim.Ctx, a, b *Node) {
	ia, err := faultdb.Image(a.FDB)
	c.Must(err, "image A")
	ib, err := faultdb.Image(b.FDB)
	c.Must(err, "image B")
	oa, ob, ch := faultdb.Diff(ia, ib, 10000)
	buckets := map[string]int{}
	for _, k := range oa {
		buckets[fmt.Sprintf("residue_onlyA_bucket_%d", k[0])]++
	}
	for _, k := range ob {
		buckets[fmt.Sprintf("residue_onlyB_bucket_%d", k[0])]++
	}
	for _, k := range ch {
		buckets[fmt.Sprintf("residue_changed_bucket_%d", k[0])]++
	}
	names := make([]string, 0, len(buckets))
	for n := range buckets {
		names = append(names, n)
	}
	sort.Strings(names)
	for _, n := range names {
		c.Probe(n)
	}
	if len(names) == 0 {
		c.Probe("databases_byte_identical")
	}
}
