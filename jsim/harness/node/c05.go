package node

import (
	"context"
	"fmt"

	"github.com/NethermindEth/juno/core"
	"github.com/NethermindEth/juno/core/felt"
	"github.com/NethermindEth/juno/db"
	"github.com/NethermindEth/juno/pruner"

	"github.com/cockroachdb/pebble/v2/vfs"

	"jsim/chaingen"
	"jsim/faultdb"
	"jsim/refstate"
	"jsim/sim"
	"jsim/tape"
)

// crashImage is one durable state captured while the workload ran.
type crashImage struct {
	kind     string // after_commit | mid_commit
	commit   int    // commit index (after_commit)
	st       *Store // memory copy or reopened Pebble clone (after_commit)
	fs       *vfs.MemFS
	opIdx    int
	lastOfOp bool
}

type opRecord struct {
	desc          string
	before, after *Model
	commits       int
}

// CheckL1 compares the recorded L1 head with the model.
func (k *checker) CheckL1() {
	got, err := k.n.BC.L1Head()
	if k.m.L1Head == nil {
		k.wantNotFound("l1head", "L1Head(unset)", err)
		return
	}
	k.eq("l1head", "L1Head", *k.m.L1Head, got, err)
}

// C05: block storage is atomic and crash-consistent at every interruption point.
func C05(c *sim.Ctx) {
	t := c.T
	class := t.Draw("class", 3) // 0,1: crash enumeration; 2: error injection
	usePebble := t.Draw("pebble", 2) == 1
	newState := t.Draw("newstate", 2) == 1
	d := newChainDriver(c)
	d.opts.MaxEvents = 1 + t.Draw("max.events", 3)
	st := NewStore(c, usePebble)
	if usePebble && class != 2 {
		st.EnableCapture(t.U64("capture.seed"), []int{0, 50})
	}
	n := OpenNode(c, st, newState, "N")
	n.FDB.Paused = true // faults and crash points are armed only while an operation runs
	defer func() { n.St.Close() }()
	m := &Model{}
	recoverTape := t.Fork("recover.gen")
	nOps := 3 + t.Draw("ops", 10)
	c.Logf("config class=%d newstate=%v pebble=%v ops=%d opts=%+v", class, newState, usePebble, nOps, d.opts)

	var images []crashImage
	var ops []opRecord
	cur := -1
	readErrOp, readErrAt, readErrBucket, readErrOcc := -1, 0, -1, 0
	classBucketFault, readErrArmedOnce := false, false
	if class != 2 {
		n.FDB.Plan.AfterCommit = func(k int) {
			images = append(images, crashImage{kind: "after_commit", commit: k, st: n.St.CrashImage(c), opIdx: cur})
		}
	} else {
		// error injection: one failing write or commit at a tape-chosen event index
		switch t.Draw("err.kind", 4) {
		case 0:
			n.FDB.Plan.FailCommitAt = 1 + t.Draw("err.at", nOps+2)
		case 1:
			n.FDB.Plan.FailWriteAt = 1 + t.Draw("err.at", 40*nOps)
		case 3:
			// the first read of a tape-chosen bucket (first key byte) from a tape-chosen operation on fails
			// (the j-th distinct bucket the operation reads, its (k+1)-th read: adapts to what is read)
			readErrArmedOnce = true
			readErrOp = t.Draw("err.read.op", nOps)
			readErrBucket = t.Draw("err.read.bucket", 14)
			readErrOcc = t.Draw("err.read.occurrence", 3)
		default:
			// one failing READ (Get/Has) inside a tape-chosen operation: the statement names failing writes;
			// a transient read error while a block is stored, reverted or pruned is the same kind of fault
			// (an I/O error reported by the database) and is held to the same three demands
			readErrOp = t.Draw("err.read.op", nOps)
			readErrAt = 1 + t.Draw("err.read.at", 60)
		}
	}
	rewire := func(nn *Node) {
		nn.FDB.Plan = n.FDB.Plan
		nn.FDB.Writes, nn.FDB.Commits, nn.FDB.Reads = n.FDB.Writes, n.FDB.Commits, n.FDB.Reads
		nn.FDB.Fired = n.FDB.Fired
		nn.FDB.Paused = n.FDB.Paused
	}

	faultsFired := 0
	for i := 0; i < nOps; i++ {
		cur = i
		before := m.Clone()
		commits0 := n.FDB.Commits
		var desc string
		var apply func() error
		var onOK func()
		var storing *chaingen.Block
		op := t.Draw("op", 14)
		isPrune := false
		switch {
		case op >= 12 && len(m.Chain) >= 2:
			// prune every block below a target (exclusive), in tiny batches so that a sweep is several
			// commits; the node keeps the blocks at and above the target
			head := m.Head().B.Number
			target := uint64(1 + t.Draw("prune.target", int(head)))
			bytes := 1 + t.Draw("prune.batch.bytes", 300)
			isPrune = true
			desc = fmt.Sprintf("prune below block %d (batch %dB)", target, bytes)
			apply = func() error {
				_, _, err := pruner.PruneUpto(context.Background(), n.FDB, target, bytes)
				return err
			}
			onOK = func() {
				if target > m.Floor {
					m.Floor = target
				}
				c.Fault("prune")
			}
		case op <= 5 || len(m.Chain) == 0:
			if class == 2 && t.Draw("store.empty", 4) == 3 {
				// a block without state changes: its child builds on the unchanged root
				d.opts.Empty = true
			}
			b := d.next(m.Head())
			d.opts.Empty = false
			storing = b
			desc = fmt.Sprintf("store block %d v%s diff=%s", b.B.Number, b.Version, diffString(b))
			apply = func() error { return n.StoreBlock(b) }
			if pre := b.Pre; class == 2 && pre != nil && len(pre.Classes) > 0 && t.Draw("store.resupply", 4) == 3 {
				// the definition of an already stored class comes along once more
				hs := refstate.SortedFelts(pre.Classes)
				h := hs[t.Draw("store.resupply.which", len(hs))]
				known := map[felt.Felt]core.ClassDefinition{h: pre.Classes[h].Def}
				desc = "store (a known class supplied again) " + desc[len("store "):]
				apply = func() error { return n.StoreBlockResupplying(b, known) }
				c.Probe("known_class_supplied_again")
				if (readErrOp >= 0 || readErrArmedOnce) && t.Draw("store.resupply.fault", 2) == 1 {
					// a read fault run: let the fault land on the look-up of that very class
					classBucketFault = true
				}
			} else if class == 2 && t.Draw("store.path", 3) == 2 {
				// the sequencer path: the node derives root and hash itself and does not verify them
				// against a declared value - a fault it swallows shows as a wrong block, not as an error
				SignedVariant(b)
				desc = "store (sequencer path) " + desc[len("store "):]
				apply = func() error { return n.FinaliseBlock(b) }
				c.Probe("block_finalised_under_fault_injection")
			}
			onOK = func() { m.Chain = append(m.Chain, b) }
		case op <= 7 && m.Head().B.Number > m.Floor:
			h := m.Head()
			desc = fmt.Sprintf("revert block %d", h.B.Number)
			apply = func() error { return n.BC.RevertHead() }
			onOK = func() {
				m.Chain = m.Chain[:len(m.Chain)-1]
				m.Reverted = append(m.Reverted, h)
				d.newFork()
				d.rewindTo(m.Head())
			}
		case op == 8:
			b := m.Chain[t.Draw("l1.block", len(m.Chain))]
			desc = fmt.Sprintf("set L1 head to block %d", b.B.Number)
			apply = func() error { return n.BC.SetL1Head(l1HeadFor(b)) }
			onOK = func() { m.L1Head = l1HeadFor(b) }
		case op == 9:
			desc = "persist event filter snapshot"
			apply = func() error { return n.BC.WriteRunningEventFilter() }
			onOK = func() {}
		case op == 10:
			desc = "graceful restart"
			apply = func() error {
				if err := n.BC.WriteRunningEventFilter(); err != nil {
					return err
				}
				nn := n.Restart(false)
				rewire(nn)
				n = nn
				return nil
			}
			onOK = func() { c.Fault("graceful_restart") }
		default:
			desc = "ungraceful restart"
			apply = func() error {
				nn := n.Restart(false)
				rewire(nn)
				n = nn
				return nil
			}
			onOK = func() { c.Fault("ungraceful_restart") }
		}
		c.Logf("op %d: %s", i, desc)
		var imgBefore []faultdb.KV
		if class == 2 {
			var err error
			imgBefore, err = faultdb.Image(n.FDB.Inner)
			c.Must(err, "image before op")
		}
		if classBucketFault {
			classBucketFault = false
			bk := db.Class.Key()[0]
			n.FDB.Plan.FailReadMatch = func(key []byte) bool { return len(key) > 0 && key[0] == bk }
		} else if readErrOp >= 0 && i >= readErrOp {
			// armed from the chosen operation on until one operation reads that often
			if readErrBucket >= 0 {
				seen, target, have, occ := map[byte]bool{}, byte(0), false, readErrOcc
				n.FDB.Plan.FailReadMatch = func(key []byte) bool {
					if len(key) == 0 {
						return false
					}
					if !seen[key[0]] {
						seen[key[0]] = true
						if len(seen)-1 == readErrBucket {
							target, have = key[0], true
						}
					}
					if !have || key[0] != target {
						return false
					}
					if occ > 0 {
						occ--
						return false
					}
					return true
				}
			} else {
				n.FDB.Plan.FailReadAt = n.FDB.Reads + readErrAt
			}
		}
		firedBefore := len(n.FDB.Fired)
		n.FDB.Paused = false
		err := apply()
		n.FDB.Paused = true
		n.FDB.Plan.FailReadAt, n.FDB.Plan.FailReadMatch = 0, nil
		// a fault was injected into this very operation: whatever error the operation reports is the
		// report of that fault (the code under test may replace the database's error by its own text,
		// e.g. "cannot migrate class ...: metadata not found" for a failed metadata read)
		faultInThisOp := class == 2 && len(n.FDB.Fired) > firedBefore
		switch {
		case err == nil:
			onOK()
		case class == 2 && (faultdb.IsInjected(err) || faultInThisOp):
			faultsFired++
			readErrOp = -1
			for _, f := range n.FDB.Fired {
				c.Fault(f)
			}
			n.FDB.Fired = nil
			c.Logf("op %d failed with the injected error", i)
			// (a) nothing was applied (a prune is a sequence of batches by design: its earlier
			// batches stay applied, and the floor it was entitled to is the reference from here on)
			if isPrune {
				onOK()
			}
			imgAfter, ierr := faultdb.Image(n.FDB.Inner)
			c.Must(ierr, "image after failed op")
			oa, ob, ch := faultdb.Diff(imgBefore, imgAfter, 5)
			if !isPrune && len(oa)+len(ob)+len(ch) > 0 {
				c.Fail("failed_write_applied", opKind(desc), "after the failed %q the database differs from before (removed=%d added=%d changed=%d keys)", desc, len(oa), len(ob), len(ch))
			}
			// (b) the running node (caches included) still behaves like the model before the op
			k := &checker{n: n, m: m}
			if mm := k.try(func() { fullCheckL1(k, d.g, 3) }); mm != nil {
				c.Fail("memory_disagrees_with_disk_after_failed_write", opKind(desc)+"/"+mm.class+":"+mm.key, "after the failed %q: %s", desc, mm.detail)
			}
			// (b') the block whose store just failed is NOT the head: its child does not link to the chain
			if storing != nil && t.Draw("child.of.failed", 2) == 1 {
				oo := d.opts
				oo.Version, oo.Salt = storing.Version, 4242
				child := d.g.Next(t, storing, oo)
				if cerr := n.StoreBlock(child); cerr == nil {
					c.Fail("unlinked_block_accepted", "child_of_a_block_whose_store_failed", "after the failed %q the node accepted block %d, child of that (never stored) block; the chain now has a gap", desc, child.B.Number)
				}
				imgC, ierr := faultdb.Image(n.FDB.Inner)
				c.Must(ierr, "image after rejected child")
				if oa, ob, ch := faultdb.Diff(imgBefore, imgC, 5); len(oa)+len(ob)+len(ch) > 0 {
					c.Fail("rejected_block_left_traces", "child_of_a_block_whose_store_failed", "rejecting block %d (child of the block whose store failed) changed the database (removed=%d added=%d changed=%d keys)", child.B.Number, len(oa), len(ob), len(ch))
				}
				c.Probe("child_of_failed_store_offered")
			}
			// (c) the same operation succeeds when retried
			n.FDB.Paused = false
			rerr := apply()
			n.FDB.Paused = true
			if rerr != nil {
				c.Fail("retry_after_failed_write_fails", opKind(desc), "retry of %q after an injected write failure: %v", desc, rerr)
			}
			if !isPrune {
				onOK()
			}
		default:
			c.Fail("valid_op_failed", opKind(desc), "%q failed: %v", desc, err)
		}
		ops = append(ops, opRecord{desc: desc, before: before, after: m.Clone(), commits: n.FDB.Commits - commits0})
		// mark which image is the last commit of this op; collect mid-commit clones
		for j := range images {
			if images[j].opIdx == i && images[j].kind == "after_commit" && images[j].commit == n.FDB.Commits {
				images[j].lastOfOp = true
			}
		}
		if st.Pebble && class != 2 {
			for _, fs := range n.St.TakeMidImages() {
				images = append(images, crashImage{kind: "mid_commit", fs: fs, opIdx: i})
			}
		}
		// the live node keeps agreeing with the model
		k := &checker{n: n, m: m}
		k.CheckHead()
		k.CheckL1()
		if class == 2 {
			fullCheckL1(k, d.g, 2)
		}
	}
	if class == 2 {
		c.Nontrivial = faultsFired > 0
		return
	}
	// ---- evaluate every captured crash image ----
	// after-commit images: all of them (every k). Mid-commit images (two per WAL fsync): all in the
	// thorough tier, a tape-chosen sample of at most 6 in the quick tier.
	if c.Tier != "thorough" {
		var keep []crashImage
		var mids []crashImage
		for _, im := range images {
			if im.kind == "mid_commit" {
				mids = append(mids, im)
			} else {
				keep = append(keep, im)
			}
		}
		for len(mids) > 6 {
			j := t.Draw("mid.drop", len(mids))
			mids = append(mids[:j], mids[j+1:]...)
		}
		images = append(keep, mids...)
	}
	for _, im := range images {
		rec := ops[im.opIdx]
		var rst *Store
		if im.kind == "mid_commit" {
			rst = st.FromFS(c, im.fs)
			c.Fault("crash_inside_commit")
		} else {
			rst = im.st
			c.Fault("crash_after_commit")
		}
		func() {
			defer rst.Close() // also when the oracle ends the run: an open instance must not outlive it
			recoverAndCheck(c, rst, newState, rec, im, d.g, recoverTape, d.opts)
		}()
		c.Evals++
	}
	c.Nontrivial = len(images) >= 3
}

func opKind(desc string) string {
	for _, k := range []string{"store", "revert", "set L1", "persist", "graceful", "ungraceful", "prune"} {
		if len(desc) >= len(k) && desc[:len(k)] == k {
			return k
		}
	}
	return "op"
}

func fullCheckL1(k *checker, g *chaingen.Gen, nFilters int) {
	fullCheck(k, g, nFilters)
	k.CheckL1()
}

// recoverAndCheck opens a fresh node on a crash image and requires it to be exactly the model
// before or after the interrupted operation (after, if the image follows the operation's last
// commit), fully consistent, and able to store the next block.
func recoverAndCheck(c *sim.Ctx, st *Store, newState bool, rec opRecord, im crashImage, g *chaingen.Gen, rt *tape.Tape, o chaingen.Opts) {
	n := OpenNode(c, st, newState, "R")
	where := fmt.Sprintf("%s image during op %q", im.kind, rec.desc)
	h, has := func() (uint64, bool) {
		hh, err := n.BC.Height()
		if err != nil {
			if notFound(err) {
				return 0, false
			}
			c.Fail("recovery_unreadable", "Height", "%s: Height(): %v", where, err)
		}
		return hh, true
	}()
	matches := func(m *Model) bool {
		if len(m.Chain) == 0 {
			return !has
		}
		if !has || h != m.Head().B.Number {
			return false
		}
		hash, err := n.BC.BlockHeaderHashByNumber(h)
		return err == nil && hash.Equal(m.Head().B.Hash)
	}
	var cands []*Model
	if im.lastOfOp {
		cands = []*Model{rec.after}
	} else {
		cands = []*Model{rec.after, rec.before}
	}
	var m *Model
	for _, cm := range cands {
		if matches(cm) {
			m = cm
			break
		}
	}
	if m == nil {
		c.Fail("recovered_head_is_no_model_state", opKind(rec.desc)+"/"+im.kind, "%s: recovered height=%d(present=%v) is neither the state before nor after the operation (lastCommitOfOp=%v)", where, h, has, im.lastOfOp)
	}
	// L1 head and head position are separate records: accept before/after independently for L1
	k := &checker{n: n, m: m}
	if mm := k.try(func() { fullCheck(k, g, 3) }); mm != nil {
		c.Fail("crash_inconsistent", opKind(rec.desc)+"/"+im.kind+"/"+mm.class+":"+mm.key, "%s: recovered node is at block %d but: %s", where, h, mm.detail)
	}
	// the L1 head is its own record: it must be the value before or after the operation
	gotL1, l1err := n.BC.L1Head()
	okL1 := false
	for _, cm := range []*Model{rec.after, rec.before} {
		if im.lastOfOp && cm != rec.after {
			continue
		}
		if cm.L1Head == nil {
			okL1 = okL1 || notFound(l1err)
		} else {
			okL1 = okL1 || (l1err == nil && canon(*cm.L1Head) == canon(gotL1))
		}
	}
	if !okL1 {
		c.Fail("crash_inconsistent", opKind(rec.desc)+"/"+im.kind+"/l1head", "%s: recovered L1 head %s (%v) is neither the value before nor after the operation", where, canon(gotL1), l1err)
	}
	// the next block can be stored normally
	var parent *chaingen.Block = m.Head()
	oo := o
	if parent != nil {
		oo.Version = parent.Version
	} else {
		oo.Version = chaingen.Versions[0]
	}
	oo.Salt = 7777
	nb := g.Next(rt, parent, oo)
	if err := n.StoreBlock(nb); err != nil {
		c.Fail("next_block_rejected_after_recovery", opKind(rec.desc)+"/"+im.kind, "%s: storing the next valid block %d failed: %v", where, nb.B.Number, err)
	}
	m2 := m.Clone()
	m2.Chain = append(m2.Chain, nb)
	k2 := &checker{n: n, m: m2}
	k2.CheckHead()
	k2.CheckRoot()
	k2.CheckBlock(nb)
}
