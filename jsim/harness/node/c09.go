package node

import (
	"fmt"
	"strconv"

	"github.com/NethermindEth/juno/blockchain"
	"github.com/NethermindEth/juno/core"
	"github.com/NethermindEth/juno/core/felt"
	"github.com/NethermindEth/juno/core/pending"
	"github.com/cockroachdb/pebble/v2"

	"jsim/chaingen"
	"jsim/sim"
)

// C09: event queries return exactly the matching events, in order, for any paging.
func C09(c *sim.Ctx) {
	t := c.T
	// one run in `long_every` crosses an 8192-block index-window boundary (seconds per run)
	den := 40
	if v, err := strconv.Atoi(c.Knobs["long_every"]); err == nil && v > 0 {
		den = v
	}
	long := t.Draw("long?", den) == den-1
	if long {
		c09Long(c)
		return
	}
	c09Short(c)
}

// eventQueries issues nq tape-chosen queries against the node and the naive scan.
func eventQueries(k *checker, g *chaingen.Gen, nq int, around uint64) {
	c := k.n.c
	if len(k.m.Chain) == 0 {
		return
	}
	head := k.m.Head().B.Number
	for i := 0; i < nq; i++ {
		f := genFilter(c, g, head)
		if around > 0 && c.T.Draw("q.around", 2) == 0 {
			// a range straddling the point of interest (window boundary)
			lo := uint64(0)
			if around > 6 {
				lo = around - uint64(1+c.T.Draw("q.lo", 6))
			}
			f.from, f.to = lo, minU64(head, around+uint64(c.T.Draw("q.hi", 6)))
		}
		ch := evChunks[c.T.Draw("ev.chunk", len(evChunks))]
		lim := evLimits[c.T.Draw("ev.limit", len(evLimits))]
		k.CheckEvents(f, []uint64{ch, 1000}, []uint{lim, 0})
	}
	if around == 0 && c.T.Draw("q.preconfirmed", 3) == 2 {
		preconfirmedQuery(k, g)
	}
}

// preconfirmedQuery puts one to three pre-confirmed blocks on top of the head (generated on a
// side fork, never stored) and asks for a range that reaches into them.
func preconfirmedQuery(k *checker, g *chaingen.Gen) {
	c, t := k.n.c, k.n.c.T
	head := k.m.Head()
	var pre []*chaingen.Block
	parent := head
	for i, n := 0, 1+t.Draw("pre.blocks", 3); i < n; i++ {
		o := chaingen.Opts{Version: head.Version, Salt: 900000 + uint64(i), MaxTxs: 3, MaxEvents: 3, MaxDiff: 1, NoClasses: true}
		parent = g.Next(t, parent, o)
		pre = append(pre, parent)
	}
	tip := head.B.Number + uint64(len(pre))
	f := genFilter(c, g, tip)
	switch t.Draw("pre.range", 4) {
	case 0: // everything up to the pre_confirmed tag
		f.to = blockchain.PreConfirmedFilterSentinel
	case 1: // from inside the canonical chain into the pre-confirmed blocks
		f.from = uint64(t.Draw("pre.from", int(head.B.Number)+1))
		f.to = head.B.Number + uint64(1+t.Draw("pre.to", len(pre)))
	case 2: // pre-confirmed blocks only
		f.from = head.B.Number + uint64(1+t.Draw("pre.from2", len(pre)))
		f.to = blockchain.PreConfirmedFilterSentinel
	default: // whatever the generic generator drew over [0, tip]
	}
	ch := evChunks[t.Draw("ev.chunk", len(evChunks))]
	lim := evLimits[t.Draw("ev.limit", len(evLimits))]
	k.CheckEventsPre(f, pre, []uint64{ch, 1000}, []uint{lim, 0})
	c.Probe("preconfirmed_query")
	if t.Draw("pre.replaced.between.pages", 3) == 0 {
		pagingAcrossReplacedPreConfirmed(k, g, f, pre)
	}
	if len(pre) >= 2 && t.Draw("pre.tip.advances.between.pages", 3) == 0 {
		pagingFromTipWhileItAdvances(k, f, pre)
	}
}

// pagingFromTipWhileItAdvances: a client pages from the pre_confirmed tag (one filter per page); the
// first page stops inside the tip block P, then the sequencer puts P+1 on top of it and the client
// follows its token. P did not change: the rest of P's matching events and all of P+1's are delivered.
func pagingFromTipWhileItAdvances(k *checker, f evFilter, pre []*chaingen.Block) {
	c, t := k.n.c, k.n.c.T
	f.from, f.to = blockchain.PreConfirmedFilterSentinel, blockchain.PreConfirmedFilterSentinel
	mk := func(blocks []*chaingen.Block) preChain {
		pc := preChain{}
		for _, b := range blocks {
			blk := CloneBlock(b.B)
			blk.Hash = nil
			pc.items = append(pc.items, &pending.PreConfirmed{Block: blk, StateUpdate: CloneStateUpdate(b.SU)})
		}
		return pc
	}
	cur := mk(pre[:1])
	addrs := make([]felt.Address, len(f.addrs))
	for i := range f.addrs {
		addrs[i] = felt.Address(f.addrs[i])
	}
	page := func(tok *blockchain.ContinuationToken, chunk uint64) ([]flatEvent, blockchain.ContinuationToken) {
		ef, err := k.n.BC.EventFilter(addrs, f.keys, func() (blockchain.PreConfirmedReader, error) { return cur, nil })
		if err != nil {
			k.fail("events_preconfirmed", "EventFilter", "EventFilter(): %v", err)
		}
		defer ef.Close()
		c.Must(ef.SetRangeEndBlockByNumber(blockchain.EventFilterFrom, f.from), "set from")
		c.Must(ef.SetRangeEndBlockByNumber(blockchain.EventFilterTo, f.to), "set to")
		evs, next, err := ef.Events(tok, chunk)
		c.Evals++
		if err != nil {
			k.fail("events_preconfirmed", "Events_from_the_tip", "Events(%s) with token %v: %v", f, tok, err)
		}
		var out []flatEvent
		for _, e := range evs {
			bh := "nil"
			if e.BlockHash != nil {
				bh = e.BlockHash.String()
			}
			out = append(out, flatEvent{e.BlockNumber, bh, e.TransactionHash.String(), e.TransactionIndex, e.EventIndex, e.From.String(), feltList(e.Keys), feltList(e.Data)})
		}
		return out, next
	}
	got, next := page(nil, 1)
	if next.IsEmpty() {
		return // the tip block holds at most one matching event: nothing to resume
	}
	var at, done uint64
	if _, err := fmt.Sscanf(next.String(), "%d-%d", &at, &done); err != nil {
		c.Broken("continuation token %q: %v", next.String(), err)
	}
	if at != pre[0].B.Number || done == 0 {
		return
	}
	cur = mk(pre[:2])
	c.Logf("pre-confirmed tip advances to block %d between two pages (token %s, from_block pre_confirmed)", pre[1].B.Number, next.String())
	c.Fault("preconfirmed_tip_advanced_between_pages")
	chunk := uint64(1 + t.Draw("tipadv.chunk", 3))
	tok := &next
	for pages := 0; ; pages++ {
		if pages > 4000 {
			k.fail("events_preconfirmed", "paging_never_ends", "paging from the pre_confirmed tag did not terminate after the tip advanced")
		}
		evs, nx := page(tok, chunk)
		got = append(got, evs...)
		if nx.IsEmpty() {
			break
		}
		n2 := nx
		tok = &n2
	}
	var want []flatEvent
	for _, b := range pre[:2] {
		for ti, r := range b.B.Receipts {
			for ei, e := range r.Events {
				if f.matches(e) {
					want = append(want, flatEvent{b.B.Number, "nil", r.TransactionHash.String(), uint(ti), uint(ei), e.From.String(), feltList(e.Keys), feltList(e.Data)})
				}
			}
		}
	}
	if cw, cg := canon(want), canon(got); cw != cg {
		kind := "mismatch"
		if len(want) > len(got) {
			kind = "omitted"
		} else if len(got) > len(want) {
			kind = "extra"
		}
		k.fail("events_preconfirmed", kind+"_after_the_tip_advanced_between_pages", "query %s from the pre_confirmed tag, first page stopped inside tip block %d (token %d-%d), block %d arrived, paging continued with chunk=%d: the two blocks hold %d matching events, the pages delivered %d: %s", f, at, at, done, pre[1].B.Number, chunk, len(want), len(got), firstDiff(cw, cg))
	}
	c.Probe("paged_from_tip_across_its_advance")
}

// pagingAcrossReplacedPreConfirmed: a client pages through a range that reaches into the
// pre-confirmed blocks (one filter per page, as the RPC layer does); between two pages the
// sequencer replaces ONE pre-confirmed candidate block by another round of the same height. What the
// remaining pages return for that block is not judged (it changed under the reader); every event of
// the blocks ABOVE the token's block - which did not change - must still be delivered, in order.
func pagingAcrossReplacedPreConfirmed(k *checker, g *chaingen.Gen, f evFilter, pre []*chaingen.Block) {
	c, t := k.n.c, k.n.c.T
	f.to = blockchain.PreConfirmedFilterSentinel
	mk := func(blocks []*chaingen.Block) preChain {
		pc := preChain{}
		for _, b := range blocks {
			blk := CloneBlock(b.B)
			blk.Hash = nil
			pc.items = append(pc.items, &pending.PreConfirmed{Block: blk, StateUpdate: CloneStateUpdate(b.SU)})
		}
		return pc
	}
	cur := mk(pre)
	addrs := make([]felt.Address, len(f.addrs))
	for i := range f.addrs {
		addrs[i] = felt.Address(f.addrs[i])
	}
	page := func(tok *blockchain.ContinuationToken, chunk uint64) ([]flatEvent, blockchain.ContinuationToken) {
		ef, err := k.n.BC.EventFilter(addrs, f.keys, func() (blockchain.PreConfirmedReader, error) { return cur, nil })
		if err != nil {
			k.fail("events_preconfirmed", "EventFilter", "EventFilter(): %v", err)
		}
		defer ef.Close()
		c.Must(ef.SetRangeEndBlockByNumber(blockchain.EventFilterFrom, f.from), "set from")
		c.Must(ef.SetRangeEndBlockByNumber(blockchain.EventFilterTo, f.to), "set to")
		evs, next, err := ef.Events(tok, chunk)
		c.Evals++
		if err != nil {
			k.fail("events_preconfirmed", "Events_after_replacement", "Events(%s) with token %v: %v", f, tok, err)
		}
		var out []flatEvent
		for _, e := range evs {
			bh := "nil"
			if e.BlockHash != nil {
				bh = e.BlockHash.String()
			}
			out = append(out, flatEvent{e.BlockNumber, bh, e.TransactionHash.String(), e.TransactionIndex, e.EventIndex, e.From.String(), feltList(e.Keys), feltList(e.Data)})
		}
		return out, next
	}
	chunk := uint64(1 + t.Draw("prx.chunk", 3))
	var tok *blockchain.ContinuationToken
	for pages := 0; pages < 4000; pages++ {
		_, next := page(tok, chunk)
		if next.IsEmpty() {
			return // the sequence ended before it stopped inside a pre-confirmed block
		}
		nx := next
		tok = &nx
		var at, done uint64
		if _, err := fmt.Sscanf(tok.String(), "%d-%d", &at, &done); err != nil {
			c.Broken("continuation token %q: %v", tok.String(), err)
		}
		first := pre[0].B.Number
		if at < first || done == 0 {
			continue // not (yet) stopped in the middle of a pre-confirmed block
		}
		if at-first >= uint64(len(pre))-1 {
			return // stopped in the newest pre-confirmed block: nothing above it to judge
		}
		// replace the candidate at height `at` by another round: a block of the same height generated on
		// another salt (often without anything for the filter); the blocks above it stay as they are
		idx := int(at - first)
		parent := k.m.Head()
		if idx > 0 {
			parent = pre[idx-1]
		}
		o := chaingen.Opts{Version: parent.Version, Salt: 910000 + uint64(idx), MaxTxs: 2, MaxEvents: 1, MaxDiff: 1, NoClasses: true, Empty: t.Draw("prx.empty", 2) == 0}
		repl := g.Next(t, parent, o)
		np := append(append(append([]*chaingen.Block(nil), pre[:idx]...), repl), pre[idx+1:]...)
		cur = mk(np)
		c.Logf("pre-confirmed block %d replaced by another round between two pages (token %s)", at, tok.String())
		c.Fault("preconfirmed_block_replaced_between_pages")
		var got []flatEvent
		for p2 := 0; ; p2++ {
			if p2 > 4000 {
				k.fail("events_preconfirmed", "paging_never_ends", "paging after a replaced pre-confirmed block did not terminate")
			}
			evs, next := page(tok, chunk)
			got = append(got, evs...)
			if next.IsEmpty() {
				break
			}
			nn := next
			tok = &nn
		}
		var want, gotAbove []flatEvent
		for _, b := range np[idx+1:] {
			for ti, r := range b.B.Receipts {
				for ei, e := range r.Events {
					if f.matches(e) {
						want = append(want, flatEvent{b.B.Number, "nil", r.TransactionHash.String(), uint(ti), uint(ei), e.From.String(), feltList(e.Keys), feltList(e.Data)})
					}
				}
			}
		}
		for _, e := range got {
			if e.Block > at {
				gotAbove = append(gotAbove, e)
			}
		}
		if cw, cg := canon(want), canon(gotAbove); cw != cg {
			kind := "mismatch"
			if len(want) > len(gotAbove) {
				kind = "omitted"
			} else if len(gotAbove) > len(want) {
				kind = "extra"
			}
			k.fail("events_preconfirmed", kind+"_above_a_block_replaced_between_pages", "query %s chunk=%d resumed with token %d-%d after pre-confirmed block %d was replaced: blocks above it hold %d matching events, got %d: %s", f, chunk, at, done, at, len(want), len(gotAbove), firstDiff(cw, cg))
		}
		if len(want) > 0 {
			c.Probe("events_above_replaced_preconfirmed_block_delivered")
		}
		return
	}
}

// raceQuery arms ONE event query of a concurrent reader to run inside the next commit the node
// issues, right before the batch is applied (the writer - store or revert - is in the middle of its
// operation; its in-memory bookkeeping may already have moved). The reader may be refused (a
// transient error) or must see the chain before or after the operation - never a third thing,
// never a silent omission. It returns the disarm function.
func raceQuery(c *sim.Ctx, n *Node, g *chaingen.Gen, before, after []*chaingen.Block, around uint64, what string) func() {
	t := c.T
	if len(before) == 0 {
		return func() {}
	}
	head := before[len(before)-1].B.Number
	f := genFilter(c, g, head)
	if around > 0 && t.Draw("race.around", 2) == 0 {
		lo := uint64(0)
		if around > 6 {
			lo = around - uint64(1+t.Draw("race.lo", 6))
		}
		f.from, f.to = lo, minU64(head+1, around+uint64(t.Draw("race.hi", 6)))
	}
	ch := evChunks[t.Draw("race.chunk", len(evChunks))]
	fired := false
	// two preemption points: when the writer opens its batch (nothing done yet, but whatever it did
	// before opening it - e.g. dropping caches - has happened) and right before the batch is applied
	atOpen := t.Draw("race.point", 2) == 1
	where := "before the batch is applied"
	if atOpen {
		where = "when the batch is opened"
	}
	hook := func() {
		if fired {
			return
		}
		fired = true
		paused := n.FDB.Paused
		n.FDB.Paused = true
		defer func() { n.FDB.Paused = paused }()
		c.Fault("event_query_inside_pending_commit")
		k := &checker{n: n, m: &Model{Chain: before}}
		var got []flatEvent
		if mm := k.try(func() { got, _ = k.QueryEvents(f, ch, 0, nil) }); mm != nil {
			c.Logf("reader inside the pending %s: query %s refused: %s", what, f, mm.key)
			c.Probe("racing_query_refused")
			return
		}
		cg := canon(got)
		wb, wa := f.scan(before), f.scan(after)
		switch cg {
		case canon(wb):
			c.Probe("racing_query_saw_chain_before")
		case canon(wa):
			c.Probe("racing_query_saw_chain_after")
		default:
			kind := "mismatch"
			if len(got) < len(wb) && len(got) < len(wa) {
				kind = "omitted"
			} else if len(got) > len(wb) && len(got) > len(wa) {
				kind = "extra"
			}
			c.Fail("events_during_pending_write", what+":"+kind, "event query %s chunk=%d issued while the %s's batch was pending returned %d events; the chain before the operation has %d, after it %d: vs before: %s", f, ch, what, len(got), len(wb), len(wa), firstDiff(canon(wb), cg))
		}
		c.Logf("reader inside the pending %s (%s): query %s -> %d events", what, where, f, len(got))
	}
	if atOpen {
		n.FDB.Plan.BeforeUpdate = hook
	} else {
		n.FDB.Plan.BeforeCommit = func(int) { hook() }
	}
	return func() { n.FDB.Plan.BeforeCommit, n.FDB.Plan.BeforeUpdate = nil, nil }
}

func minU64(a, b uint64) uint64 {
	if a < b {
		return a
	}
	return b
}

func c09Short(c *sim.Ctx) {
	t := c.T
	p := newPair(c, false)
	defer p.close()
	p.d.opts.MaxTxs = 2 + t.Draw("max.txs", 4)
	p.d.opts.MaxEvents = 2 + t.Draw("max.events", 3)
	p.d.opts.MaxDiff = 1 + t.Draw("max.diff", 3)
	maxBlocks := 4 + t.Draw("max.blocks", 16)
	steps := 6 + t.Draw("steps", 24)
	reorgs, warm, restarts := 0, 0, 0
	if t.Draw("racing.reader", 2) == 1 {
		p.aroundStore = func(b *chaingen.Block) func() {
			if t.Draw("race.store", 3) != 0 {
				return func() {}
			}
			return raceQuery(c, p.nodes[0], p.d.g, p.m.Chain, append(append([]*chaingen.Block(nil), p.m.Chain...), b), 0, "store")
		}
		p.aroundRevert = func() func() {
			if t.Draw("race.revert", 2) != 0 {
				return func() {}
			}
			return raceQuery(c, p.nodes[0], p.d.g, p.m.Chain, p.m.Chain[:len(p.m.Chain)-1], 0, "revert")
		}
	}
	for s := 0; s < steps; s++ {
		op := t.Draw("op", 16)
		switch {
		case op >= 14 && len(p.m.Chain) > 0:
			// a reorg as the very first thing after a start (the event index is initialised lazily)
			p.restart(0, op == 14)
			restarts++
			depth := 1 + t.Draw("reorg.depth", 3)
			for d := 0; d < depth && len(p.m.Chain) > 0; d++ {
				p.revert()
			}
			reorgs++
			c.Probe("reorg_first_thing_after_start")
		case op <= 6 || len(p.m.Chain) == 0:
			if len(p.m.Chain) >= maxBlocks {
				continue
			}
			p.store()
		case op <= 8:
			depth := 1 + t.Draw("reorg.depth", 4)
			for d := 0; d < depth && len(p.m.Chain) > 0; d++ {
				p.revert()
			}
			reorgs++
		case op == 9:
			// queries that warm the caches before whatever comes next
			eventQueries(&checker{n: p.nodes[0], m: p.m}, p.d.g, 2, 0)
			warm++
		case op == 10:
			c.Logf("persist event filter snapshot")
			if err := p.nodes[0].BC.WriteRunningEventFilter(); err != nil {
				c.Fail("valid_op_failed", "persist", "WriteRunningEventFilter: %v", err)
			}
			c.Fault("filter_snapshot_persisted")
		case op == 11:
			p.restart(0, true)
			restarts++
		default:
			p.restart(0, false)
			restarts++
		}
		k := &checker{n: p.nodes[0], m: p.m}
		k.CheckHead()
		eventQueries(k, p.d.g, 2, 0)
	}
	eventQueries(&checker{n: p.nodes[0], m: p.m}, p.d.g, 4, 0)
	c.Nontrivial = reorgs > 0 && (warm > 0 || restarts > 0)
}

// c09Long builds a chain across an index-window boundary (core.NumBlocksPerFilter blocks per
// window) out of empty filler blocks and places the interesting history around the boundary.
func c09Long(c *sim.Ctx) {
	t := c.T
	c.Probe("long_run")
	usePebble := t.Draw("pebble", 2) == 1
	// The legacy backend works through indexed batches: on the memory DB every iterator costs a full
	// database copy (hopeless for 8192+ blocks), on Pebble a read scans every obsolete version of
	// hot keys in the memtable - affordable only if the memtable is flushed periodically (below).
	newState := !usePebble || t.Draw("newstate", 2) == 1
	n := OpenNode(c, NewStore(c, usePebble), newState, "L")
	defer func() { n.St.Close() }()
	d := newChainDriver(c)
	d.opts.MaxTxs, d.opts.MaxEvents, d.opts.MaxDiff = 3, 3, 1
	m := &Model{}
	W := uint64(core.NumBlocksPerFilter)
	windows := uint64(1 + t.Draw("windows", 2))
	boundary := windows * W // first block of the next window
	c.Logf("long run newstate=%v pebble=%v boundary=%d", newState, usePebble, boundary)
	racing, forceRace := false, false
	store := func(empty bool) {
		o := d.opts
		o.Empty = empty
		saved := d.opts
		d.opts = o
		b := d.next(m.Head())
		d.opts = saved
		disarm := func() {}
		if racing && t.Draw("race.store", 3) == 0 {
			disarm = raceQuery(c, n, d.g, m.Chain, append(append([]*chaingen.Block(nil), m.Chain...), b), boundary, "store")
		}
		err := n.StoreBlock(b)
		disarm()
		if err != nil {
			c.Fail("valid_block_rejected", "store", "[%s] valid block %d rejected: %v", backendName(n), b.B.Number, err)
		}
		m.Chain = append(m.Chain, b)
		if usePebble && len(m.Chain)%256 == 0 {
			if pdb, ok := n.St.kv.Impl().(*pebble.DB); ok {
				c.Must(pdb.Flush(), "pebble flush")
			}
		}
	}
	revert := func() {
		h := m.Head()
		disarm := func() {}
		if racing && (forceRace || t.Draw("race.revert", 2) == 0) {
			disarm = raceQuery(c, n, d.g, m.Chain, m.Chain[:len(m.Chain)-1], boundary, "revert")
		}
		err := n.BC.RevertHead()
		disarm()
		if err != nil {
			c.Fail("revert_failed", revertKey(h), "[%s] RevertHead of stored block %d failed: %v", backendName(n), h.B.Number, err)
		}
		m.Chain = m.Chain[:len(m.Chain)-1]
		m.Reverted = append(m.Reverted[:0], h) // keep only the last (absent checks are not the subject here)
		d.newFork()
		d.rewindTo(m.Head())
		c.Fault("revert")
	}
	// some event blocks early (so that persisted windows are not empty), then filler
	pre := uint64(3 + t.Draw("early", 5))
	for uint64(len(m.Chain)) < pre {
		store(false)
	}
	lead := uint64(2 + t.Draw("lead", 6)) // interesting blocks start this many before the boundary
	for uint64(len(m.Chain)) < boundary-lead {
		store(true)
	}
	c.Logf("filler done at height %d", len(m.Chain)-1)
	racing = true // from here on a reader's query may run inside a writer's pending commit
	steps := 8 + t.Draw("steps", 18)
	crossedFwd, crossedBack := 0, 0
	for s := 0; s < steps; s++ {
		op := t.Draw("op", 13)
		before := uint64(len(m.Chain))
		switch {
		case op == 12:
			// the block that completes a window is replaced while a reader queries that window inside the
			// revert's pending commit; the replacement (with events) completes the window again
			for uint64(len(m.Chain)) > boundary {
				revert()
			}
			for uint64(len(m.Chain)) < boundary {
				// mostly empty: the replaced block then leaves no bits that would hide a stale index window
				store(t.Draw("empty", 4) != 0)
			}
			c.Logf("replace block %d (last of its window) under a racing reader", boundary-1)
			forceRace = true
			revert()
			forceRace = false
			store(false)
			c.Probe("window_closing_block_replaced_under_reader")
		case op <= 5:
			if uint64(len(m.Chain))%W == W-1 && t.Draw("fail.window.end", 4) != 0 {
				// the commit of the block that completes a window fails once; nothing may stay behind
				// (the first or the second commit the store issues: a correct store issues exactly one)
				n.FDB.Plan.FailCommitAt = n.FDB.Commits + 1 + (t.Draw("fail.which.commit", 3)+1)/2
				o := d.opts
				o.Empty = true
				saved := d.opts
				d.opts = o
				fb := d.next(m.Head())
				d.opts = saved
				err := n.StoreBlock(fb)
				n.FDB.Plan.FailCommitAt = 0
				if err == nil {
					// the armed commit index was not reached: the block is simply stored
					m.Chain = append(m.Chain, fb)
					c.Logf("store block %d", len(m.Chain)-1)
					break
				}
				c.Logf("store of block %d (last of its window) failed with the injected commit error", fb.B.Number)
				c.Fault("commit_error_at_window_end")
				(&checker{n: n, m: m}).CheckHead()
				if t.Draw("restart.after.failure", 2) == 1 {
					n = n.Restart(false)
				}
				if err := n.StoreBlock(fb); err != nil {
					c.Fail("valid_block_rejected", "store_after_failed_commit", "[%s] block %d could not be stored after its first commit had failed: %v", backendName(n), fb.B.Number, err)
				}
				m.Chain = append(m.Chain, fb)
				break
			}
			store(t.Draw("empty", 4) == 0)
			c.Logf("store block %d", len(m.Chain)-1)
		case op <= 7:
			depth := 1 + t.Draw("reorg.depth", 5)
			for i := 0; i < depth && uint64(len(m.Chain)) > boundary-lead-2; i++ {
				revert()
			}
			c.Logf("reorg to height %d", len(m.Chain)-1)
		case op == 8:
			c.Logf("warm-up queries")
			eventQueries(&checker{n: n, m: m}, d.g, 2, boundary)
		case op == 9:
			c.Logf("persist event filter snapshot")
			if err := n.BC.WriteRunningEventFilter(); err != nil {
				c.Fail("valid_op_failed", "persist", "WriteRunningEventFilter: %v", err)
			}
		case op == 10:
			c.Logf("graceful restart")
			n = n.Restart(true)
			c.Fault("graceful_restart")
		default:
			c.Logf("ungraceful restart")
			n = n.Restart(false)
			c.Fault("ungraceful_restart")
		}
		after := uint64(len(m.Chain))
		if before <= boundary && after > boundary {
			crossedFwd++
			c.Probe("window_rollover")
		}
		if before > boundary && after <= boundary {
			crossedBack++
			c.Probe("reorg_across_window_boundary")
		}
		k := &checker{n: n, m: m}
		k.CheckHead()
		eventQueries(k, d.g, 2, boundary)
	}
	eventQueries(&checker{n: n, m: m}, d.g, 6, boundary)
	c.Nontrivial = crossedFwd > 0
}
