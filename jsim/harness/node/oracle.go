package node

import (
	"errors"
	"fmt"
	"iter"

	"github.com/NethermindEth/juno/blockchain"
	"github.com/NethermindEth/juno/core"
	"github.com/NethermindEth/juno/core/felt"
	"github.com/NethermindEth/juno/core/pending"
	"github.com/NethermindEth/juno/db"

	"jsim/chaingen"
	"jsim/refstate"
)

// Model is the reference chain: the list of blocks the node is supposed to hold.
type Model struct {
	Chain    []*chaingen.Block
	Reverted []*chaingen.Block // blocks that were reverted (their hashes must be unknown unless re-stored)
	L1Head   *core.L1Head
	Floor    uint64 // oldest retained block (pruning); 0 = nothing pruned
}

func (m *Model) Head() *chaingen.Block {
	if len(m.Chain) == 0 {
		return nil
	}
	return m.Chain[len(m.Chain)-1]
}

func (m *Model) Clone() *Model {
	n := *m
	n.Chain = append([]*chaingen.Block(nil), m.Chain...)
	n.Reverted = append([]*chaingen.Block(nil), m.Reverted...)
	return &n
}

func (m *Model) isCanonicalHash(h *felt.Felt) bool {
	for _, b := range m.Chain {
		if b.B.Hash.Equal(h) {
			return true
		}
	}
	return false
}

func notFound(err error) bool { return errors.Is(err, db.ErrKeyNotFound) }

type checker struct {
	n    *Node
	m    *Model
	soft bool // collect the first mismatch instead of failing the run (see try)
	ctx  string
}

type mismatch struct{ class, key, detail string }

type softFail struct{ m mismatch }

func (k *checker) fail(class, key, format string, a ...any) {
	d := fmt.Sprintf("["+k.n.Name+backendName(k.n)+"] "+k.ctx+format, a...)
	if k.soft {
		panic(softFail{mismatch{class, key, d}})
	}
	k.n.c.Fail(class, key, "%s", d)
}

// try runs f with the checker in soft mode and returns the first mismatch (nil: all equal).
func (k *checker) try(f func()) (res *mismatch) {
	old := k.soft
	k.soft = true
	defer func() {
		k.soft = old
		if r := recover(); r != nil {
			sf, ok := r.(softFail)
			if !ok {
				panic(r)
			}
			res = &sf.m
		}
	}()
	f()
	return nil
}

func backendName(n *Node) string {
	s := "/legacy"
	if n.NewState {
		s = "/newstate"
	}
	if n.St.Pebble {
		s += "/pebble"
	} else {
		s += "/memory"
	}
	return s
}

// eq compares a returned value with the model's, structurally.
func (k *checker) eq(class, what string, want, got any, err error) {
	k.n.c.Evals++
	if err != nil {
		k.fail(class, what, "%s: unexpected error %v", what, err)
	}
	cw, cg := canon(want), canon(got)
	if cw != cg {
		k.fail(class, what, "%s differs from what was stored: %s", what, firstDiff(cw, cg))
	}
}

func (k *checker) wantNotFound(class, what string, err error) {
	k.n.c.Evals++
	if err == nil {
		k.fail(class, what, "%s: expected not-found, got a value", what)
	}
	if !notFound(err) {
		k.fail(class, what+"_errclass", "%s: expected db.ErrKeyNotFound, got %v", what, err)
	}
}

// CheckHead: height, head block and head header agree with the model.
func (k *checker) CheckHead() {
	bc := k.n.BC
	h, err := bc.Height()
	if len(k.m.Chain) == 0 {
		k.wantNotFound("head", "Height(empty chain)", err)
		_, err = bc.Head()
		k.wantNotFound("head", "Head(empty chain)", err)
		return
	}
	want := k.m.Head()
	if err != nil || h != want.B.Number {
		k.fail("head", "Height", "Height()=%d,%v want %d", h, err, want.B.Number)
	}
	hb, err := bc.Head()
	k.eq("head", "Head", want.B, hb, err)
	hh, err := bc.HeadsHeader()
	k.eq("head", "HeadsHeader", want.B.Header, hh, err)
}

// CheckBlock (C07): every accessor returns what was stored for block b.
func (k *checker) CheckBlock(b *chaingen.Block) {
	bc := k.n.BC
	num := b.B.Number
	k.ctx = fmt.Sprintf("block %d: ", num)
	defer func() { k.ctx = "" }()
	cl := "accessor"
	blk, err := bc.BlockByNumber(num)
	k.eq(cl, "BlockByNumber", b.B, blk, err)
	blk, err = bc.BlockByHash(b.B.Hash)
	k.eq(cl, "BlockByHash", b.B, blk, err)
	hd, err := bc.BlockHeaderByNumber(num)
	k.eq(cl, "BlockHeaderByNumber", b.B.Header, hd, err)
	hd, err = bc.BlockHeaderByHash(b.B.Hash)
	k.eq(cl, "BlockHeaderByHash", b.B.Header, hd, err)
	hh, err := bc.BlockHeaderHashByNumber(num)
	k.eq(cl, "BlockHeaderHashByNumber", b.B.Hash, hh, err)
	bn, err := bc.BlockNumberByHash(b.B.Hash)
	k.eq(cl, "BlockNumberByHash", num, bn, err)
	root, err := bc.GlobalStateRootByBlockNumber(num)
	k.eq(cl, "GlobalStateRootByBlockNumber", b.B.GlobalStateRoot, root, err)
	cnt, err := bc.BlockTransactionCountByNumber(num)
	k.eq(cl, "BlockTransactionCountByNumber", uint64(len(b.B.Transactions)), cnt, err)
	txs, err := bc.TransactionsByBlockNumber(num)
	k.eq(cl, "TransactionsByBlockNumber", b.B.Transactions, txs, err)
	txs2, rcs2, err := bc.TransactionsAndReceiptsByBlockNumber(num)
	k.eq(cl, "TransactionsAndReceiptsByBlockNumber.txs", b.B.Transactions, txs2, err)
	k.eq(cl, "TransactionsAndReceiptsByBlockNumber.receipts", b.B.Receipts, rcs2, err)
	hashes, err := bc.TransactionHashesByBlockNumber(num)
	wantHashes := make([]felt.Felt, len(b.B.Transactions))
	for i, tx := range b.B.Transactions {
		wantHashes[i] = *tx.Hash()
	}
	k.eq(cl, "TransactionHashesByBlockNumber", wantHashes, hashes, err)
	su, err := bc.StateUpdateByNumber(num)
	k.eq(cl, "StateUpdateByNumber", b.SU, su, err)
	su, err = bc.StateUpdateByHash(b.B.Hash)
	k.eq(cl, "StateUpdateByHash", b.SU, su, err)
	comm, err := bc.BlockCommitmentsByNumber(num)
	if err != nil || comm == nil {
		k.fail(cl, "BlockCommitmentsByNumber", "BlockCommitmentsByNumber(%d): %v", num, err)
	}
	// commitments are derived values: they must equal what the hash function derives from the block
	_, wantComm, herr := core.BlockHash(CloneBlock(b.B), b.SU.StateDiff, k.n.Net, nil, core.DeprecatedTrieBackend)
	k.n.c.Must(herr, "recompute commitments")
	k.eq(cl, "BlockCommitmentsByNumber", wantComm, comm, nil)

	for i, tx := range b.B.Transactions {
		idx := uint64(i)
		rc := b.B.Receipts[i]
		got, err := bc.TransactionByHash(tx.Hash())
		k.eq(cl, "TransactionByHash", tx, got, err)
		got, err = bc.TransactionByBlockNumberAndIndex(num, idx)
		k.eq(cl, "TransactionByBlockNumberAndIndex", tx, got, err)
		gbn, gidx, err := bc.BlockNumberAndIndexByTxHash((*felt.TransactionHash)(tx.Hash()))
		k.eq(cl, "BlockNumberAndIndexByTxHash.number", num, gbn, err)
		k.eq(cl, "BlockNumberAndIndexByTxHash.index", idx, gidx, err)
		grc, gbh, gnum, err := bc.Receipt(tx.Hash())
		k.eq(cl, "Receipt", rc, grc, err)
		k.eq(cl, "Receipt.blockHash", b.B.Hash, gbh, err)
		k.eq(cl, "Receipt.blockNumber", num, gnum, err)
		gtx, grc2, gbh2, err := bc.TransactionAndReceiptByBlockNumberAndIndex(num, idx)
		k.eq(cl, "TransactionAndReceiptByBlockNumberAndIndex.tx", tx, gtx, err)
		k.eq(cl, "TransactionAndReceiptByBlockNumberAndIndex.receipt", rc, &grc2, err)
		k.eq(cl, "TransactionAndReceiptByBlockNumberAndIndex.blockHash", b.B.Hash, gbh2, err)
		st, err := bc.TransactionExecutionStatusByBlockNumberAndIndex(num, idx)
		k.eq(cl, "TransactionExecutionStatusByBlockNumberAndIndex", core.TransactionExecutionStatus{Reverted: rc.Reverted, RevertReason: rc.RevertReason}, st, err)
		if l1, ok := tx.(*core.L1HandlerTransaction); ok {
			var mh [32]byte
			copy(mh[:], l1.MessageHash())
			gh, err := bc.L1HandlerTxnHash((*ethHash)(&mh))
			k.eq(cl, "L1HandlerTxnHash", *tx.Hash(), gh, err)
		}
	}
	// partial decoder: per-transaction events
	evs, err := core.GetTransactionEventsByBlockNumber(k.n.FDB, num)
	wantEvs := make([]core.TransactionEvents, len(b.B.Receipts))
	for i, r := range b.B.Receipts {
		wantEvs[i] = core.TransactionEvents{Events: r.Events, TransactionHash: r.TransactionHash}
	}
	k.eq(cl, "GetTransactionEventsByBlockNumber", wantEvs, evs, err)
	// out of range index
	n := uint64(len(b.B.Transactions))
	_, err = bc.TransactionByBlockNumberAndIndex(num, n)
	k.wantNotFound(cl, "TransactionByBlockNumberAndIndex(out of range)", err)
	_, _, _, err = bc.TransactionAndReceiptByBlockNumberAndIndex(num, n+3)
	k.wantNotFound(cl, "TransactionAndReceiptByBlockNumberAndIndex(out of range)", err)
}

// CheckAbsent: nothing above the head, reverted hashes unknown.
func (k *checker) CheckAbsent() {
	bc := k.n.BC
	next := uint64(len(k.m.Chain))
	cl := "absent"
	_, err := bc.BlockByNumber(next)
	k.wantNotFound(cl, "BlockByNumber(head+1)", err)
	_, err = bc.BlockHeaderByNumber(next)
	k.wantNotFound(cl, "BlockHeaderByNumber(head+1)", err)
	_, err = bc.StateUpdateByNumber(next)
	k.wantNotFound(cl, "StateUpdateByNumber(head+1)", err)
	_, err = bc.TransactionsByBlockNumber(next)
	if err == nil {
		// an empty list for a block that does not exist is tolerated only if empty
		txs, _ := bc.TransactionsByBlockNumber(next)
		if len(txs) != 0 {
			k.fail(cl, "TransactionsByBlockNumber(head+1)", "transactions returned for a block above the head")
		}
	}
	_, err = bc.BlockCommitmentsByNumber(next)
	k.wantNotFound(cl, "BlockCommitmentsByNumber(head+1)", err)
	for _, r := range k.m.Reverted {
		if k.m.isCanonicalHash(r.B.Hash) {
			continue
		}
		_, err := bc.BlockByHash(r.B.Hash)
		k.wantNotFound(cl, "BlockByHash(reverted)", err)
		_, err = bc.BlockNumberByHash(r.B.Hash)
		k.wantNotFound(cl, "BlockNumberByHash(reverted)", err)
		_, err = bc.StateUpdateByHash(r.B.Hash)
		k.wantNotFound(cl, "StateUpdateByHash(reverted)", err)
		_, _, err = bc.StateAtBlockHash(r.B.Hash)
		k.wantNotFound(cl, "StateAtBlockHash(reverted)", err)
		for _, tx := range r.B.Transactions {
			if k.txCanonical(tx.Hash()) {
				continue
			}
			_, err := bc.TransactionByHash(tx.Hash())
			k.wantNotFound(cl, "TransactionByHash(reverted)", err)
			_, _, _, err = bc.Receipt(tx.Hash())
			k.wantNotFound(cl, "Receipt(reverted)", err)
			if l1, ok := tx.(*core.L1HandlerTransaction); ok {
				var mh [32]byte
				copy(mh[:], l1.MessageHash())
				_, err := bc.L1HandlerTxnHash((*ethHash)(&mh))
				k.wantNotFound(cl, "L1HandlerTxnHash(reverted)", err)
			}
		}
	}
}

func (k *checker) txCanonical(h *felt.Felt) bool {
	for _, b := range k.m.Chain {
		for _, tx := range b.B.Transactions {
			if tx.Hash().Equal(h) {
				return true
			}
		}
	}
	return false
}

// ---- state (C01 / C03) --------------------------------------------------------------------------

type commitmenter interface {
	Commitment(protocolVersion string) (felt.Felt, error)
}

// CheckRoot (C01): the stored root, and the commitment recomputed from the tries, equal the
// reference commitment of the abstract state.
func (k *checker) CheckRoot() {
	head := k.m.Head()
	if head == nil {
		return
	}
	want := head.Post.Commitment(head.Version)
	if !want.Equal(head.B.GlobalStateRoot) {
		k.n.c.Broken("model inconsistency: block root != reference commitment")
	}
	r, closer, err := k.n.BC.HeadState()
	if err != nil {
		k.fail("root", "HeadState", "HeadState(): %v", err)
	}
	defer func() { _ = closer() }()
	ct, err := r.ContractTrie()
	if err != nil {
		k.fail("root", "ContractTrie", "ContractTrie(): %v", err)
	}
	cr, err := ct.Hash()
	wantCR := head.Post.ContractRoot()
	k.n.c.Evals++
	if err != nil || !cr.Equal(&wantCR) {
		k.fail("root", "contract_trie_root", "contract trie root %s (%v) != reference %s at block %d", cr.String(), err, wantCR.String(), head.B.Number)
	}
	clt, err := r.ClassTrie()
	if err != nil {
		k.fail("root", "ClassTrie", "ClassTrie(): %v", err)
	}
	clr, err := clt.Hash()
	wantCLR := head.Post.ClassRoot()
	k.n.c.Evals++
	if err != nil || !clr.Equal(&wantCLR) {
		k.fail("root", "class_trie_root", "class trie root %s (%v) != reference %s at block %d", clr.String(), err, wantCLR.String(), head.B.Number)
	}
	if cm, ok := r.(commitmenter); ok {
		got, err := cm.Commitment(head.Version)
		k.n.c.Evals++
		if err != nil || !got.Equal(&want) {
			k.fail("root", "commitment", "Commitment() %s (%v) != reference %s at block %d", got.String(), err, want.String(), head.B.Number)
		}
	}
	// per-contract storage roots
	for _, a := range refstate.SortedFelts(head.Post.Contracts) {
		c := head.Post.Contracts[a]
		st, err := r.ContractStorageTrie(&a)
		if err != nil {
			k.fail("root", "ContractStorageTrie", "ContractStorageTrie(%s): %v", a.String(), err)
		}
		got, err := st.Hash()
		wantSR := refstate.StorageRoot(c)
		k.n.c.Evals++
		if err != nil || !got.Equal(&wantSR) {
			k.fail("root", "storage_root", "storage root of %s: %s (%v) != reference %s", a.String(), got.String(), err, wantSR.String())
		}
	}
}

type stateSel struct {
	all   bool
	addrs []felt.Felt
	slots []felt.Felt
}

// CheckStateAt (C03): reads "as of block n" (by number, by hash, and at the head when n is the
// head) equal the abstract state after block n.
func (k *checker) CheckStateAt(n int, g *chaingen.Gen, viaHead bool) {
	b := k.m.Chain[n]
	readers := map[string]core.StateReader{}
	r1, c1, err := k.n.BC.StateAtBlockNumber(b.B.Number)
	if err != nil {
		k.fail("state", "StateAtBlockNumber", "StateAtBlockNumber(%d): %v", b.B.Number, err)
	}
	defer func() { _ = c1() }()
	readers["StateAtBlockNumber"] = r1
	r2, c2, err := k.n.BC.StateAtBlockHash(b.B.Hash)
	if err != nil {
		k.fail("state", "StateAtBlockHash", "StateAtBlockHash(%d): %v", b.B.Number, err)
	}
	defer func() { _ = c2() }()
	readers["StateAtBlockHash"] = r2
	if viaHead {
		r3, c3, err := k.n.BC.HeadState()
		if err != nil {
			k.fail("state", "HeadState", "HeadState(): %v", err)
		}
		defer func() { _ = c3() }()
		readers["HeadState"] = r3
	}
	k.checkReaders(b, readers, g)
}

// checkReaders compares everything readable through the given state readers with the reference state
// as of block b. A reader named "Held..." was obtained at an earlier quiescent point (while b may have
// been the head) and has been used before: it is still a read "at that block".
func (k *checker) checkReaders(b *chaingen.Block, readers map[string]core.StateReader, g *chaingen.Gen) {
	post := b.Post
	addrs := append(append([]felt.Felt(nil), g.Addrs...), felt.One, felt.FromUint64[felt.Felt](2))
	for _, name := range []string{"HeadState", "StateAtBlockHash", "StateAtBlockNumber", "HeldStateAtBlockHash", "HeldStateAtBlockNumber"} {
		r := readers[name]
		if r == nil {
			continue
		}
		for _, a := range addrs {
			c := post.Contracts[a]
			sys := refstate.IsSystem(&a)
			ch, err := r.ContractClassHash(&a)
			k.n.c.Evals++
			switch {
			case c != nil && !c.System:
				if err != nil || !ch.Equal(&c.ClassHash) {
					k.fail("state", name+".ContractClassHash", "%s@%d ContractClassHash(%s)=%s,%v want %s", name, b.B.Number, a.String(), ch.String(), err, c.ClassHash.String())
				}
				nn, err := r.ContractNonce(&a)
				if err != nil || !nn.Equal(&c.Nonce) {
					k.fail("state", name+".ContractNonce", "%s@%d ContractNonce(%s)=%s,%v want %s", name, b.B.Number, a.String(), nn.String(), err, c.Nonce.String())
				}
			case c == nil && !sys:
				if err == nil {
					k.fail("state", name+".ContractClassHash_absent", "%s@%d ContractClassHash(%s)=%s for a contract that does not exist at that block", name, b.B.Number, a.String(), ch.String())
				}
				if _, err := r.ContractNonce(&a); err == nil {
					k.fail("state", name+".ContractNonce_absent", "%s@%d ContractNonce(%s) succeeded for a contract that does not exist at that block", name, b.B.Number, a.String())
				}
			}
			if c == nil && sys && name != "HeadState" {
				// a system contract (0x1, 0x2) that no block up to this one has written to does not exist
				// yet at this block: like any other contract that does not exist yet, reading it is
				// reported as not found (both backends agree on the unchanged tree)
				z := felt.Zero
				if v, err := r.ContractStorage(&a, &z); err == nil {
					k.fail("state", name+".ContractStorage_of_unwritten_system_contract", "%s@%d ContractStorage(%s, 0x0)=%s without error although no block up to %d has written to that system contract", name, b.B.Number, a.String(), v.String(), b.B.Number)
				}
			}
			if c == nil {
				continue
			}
			for _, s := range k.querySlots(g) {
				want := c.Storage[s]
				got, err := r.ContractStorage(&a, &s)
				k.n.c.Evals++
				if err != nil || !got.Equal(&want) {
					k.fail("state", name+".ContractStorage", "%s@%d ContractStorage(%s,%s)=%s,%v want %s", name, b.B.Number, a.String(), s.String(), got.String(), err, want.String())
				}
			}
		}
		// classes: everything ever generated in this model chain (incl. later blocks and reverted forks)
		for _, hb := range k.allBlocks() {
			for _, h := range refstate.SortedFelts(hb.Classes) {
				mc := post.Classes[h]
				dc, err := r.Class(&h)
				k.n.c.Evals++
				if mc != nil {
					if err != nil {
						k.fail("state", name+".Class", "%s@%d Class(%s): %v", name, b.B.Number, h.String(), err)
					}
					if dc.At != mc.DeclaredAt {
						k.fail("state", name+".Class.At", "%s@%d Class(%s).At=%d want %d", name, b.B.Number, h.String(), dc.At, mc.DeclaredAt)
					}
					if cw, cg := canon(mc.Def), canon(dc.Class); cw != cg {
						k.fail("state", name+".Class.def", "%s@%d Class(%s) definition differs: %s", name, b.B.Number, h.String(), firstDiff(cw, cg))
					}
					if mc.Sierra {
						wantCasm, _ := mc.CasmAt(b.B.Number)
						got, err := r.CompiledClassHash((*felt.SierraClassHash)(&h))
						if err != nil || !(*felt.Felt)(&got).Equal(&wantCasm) {
							k.fail("state", name+".CompiledClassHash", "%s@%d CompiledClassHash(%s)=%s,%v want %s", name, b.B.Number, h.String(), (*felt.Felt)(&got).String(), err, wantCasm.String())
						}
					}
				} else if err == nil && name != "HeadState" {
					k.fail("state", name+".Class_absent", "%s@%d Class(%s) found (declared at %d) but the class is not declared at that block", name, b.B.Number, h.String(), dc.At)
				}
			}
		}
	}
}

// querySlots: every slot any block of the model (canonical or reverted) ever wrote, plus two
// never-written ones. (Reading a slot costs a full copy of the memory DB on the legacy backend.)
func (k *checker) querySlots(g *chaingen.Gen) []felt.Felt {
	touched := map[felt.Felt]bool{}
	for _, b := range k.allBlocks() {
		if b == nil { // a model recovered from a crash image has holes below the floor
			continue
		}
		for _, slots := range b.SU.StateDiff.StorageDiffs {
			for s := range slots {
				touched[s] = true
			}
		}
	}
	extra := 0
	for _, s := range g.Slots {
		if !touched[s] && extra < 2 {
			touched[s] = true
			extra++
		}
	}
	return refstate.SortedFelts(touched)
}

func (k *checker) allBlocks() []*chaingen.Block {
	return append(append([]*chaingen.Block(nil), k.m.Chain...), k.m.Reverted...)
}

// ---- events (C09) ----------------------------------------------------------------------------------

type evFilter struct {
	addrs    []felt.Felt
	keys     [][]felt.Felt
	from, to uint64
}

func (f evFilter) String() string {
	return fmt.Sprintf("addrs=%v keys=%v range=[%d,%d]", feltList(f.addrs), keyList(f.keys), f.from, f.to)
}

func feltList(xs []felt.Felt) []string {
	out := make([]string, len(xs))
	for i := range xs {
		out[i] = xs[i].String()
	}
	return out
}

func keyList(xs [][]felt.Felt) [][]string {
	out := make([][]string, len(xs))
	for i := range xs {
		out[i] = feltList(xs[i])
	}
	return out
}

type flatEvent struct {
	Block   uint64
	Hash    string
	TxHash  string
	TxIndex uint
	EvIndex uint
	From    string
	Keys    []string
	Data    []string
}

// naive scan of the model's receipts
func (f evFilter) scan(chain []*chaingen.Block) []flatEvent {
	var out []flatEvent
	for _, b := range chain {
		if b.B.Number < f.from || b.B.Number > f.to {
			continue
		}
		for ti, r := range b.B.Receipts {
			for ei, e := range r.Events {
				if !f.matches(e) {
					continue
				}
				out = append(out, flatEvent{b.B.Number, b.B.Hash.String(), r.TransactionHash.String(), uint(ti), uint(ei), e.From.String(), feltList(e.Keys), feltList(e.Data)})
			}
		}
	}
	return out
}

func (f evFilter) matches(e *core.Event) bool {
	if len(f.addrs) > 0 {
		ok := false
		for i := range f.addrs {
			if f.addrs[i].Equal(e.From) {
				ok = true
			}
		}
		if !ok {
			return false
		}
	}
	for i, alts := range f.keys {
		if len(alts) == 0 {
			continue
		}
		if i >= len(e.Keys) {
			return false
		}
		ok := false
		for j := range alts {
			if alts[j].Equal(&e.Keys[i]) {
				ok = true
			}
		}
		if !ok {
			return false
		}
	}
	return true
}

// QueryEvents follows continuation tokens until the node says the result is complete.
func (k *checker) QueryEvents(f evFilter, chunk uint64, limit uint, pre func() (blockchain.PreConfirmedReader, error)) ([]flatEvent, int) {
	addrs := make([]felt.Address, len(f.addrs))
	for i := range f.addrs {
		addrs[i] = felt.Address(f.addrs[i])
	}
	if pre == nil {
		pre = func() (blockchain.PreConfirmedReader, error) { return nil, nil }
	}
	ef, err := k.n.BC.EventFilter(addrs, f.keys, pre)
	if err != nil {
		k.fail("events", "EventFilter", "EventFilter(): %v", err)
	}
	defer ef.Close()
	k.n.c.Must(ef.SetRangeEndBlockByNumber(blockchain.EventFilterFrom, f.from), "set from")
	k.n.c.Must(ef.SetRangeEndBlockByNumber(blockchain.EventFilterTo, f.to), "set to")
	var efr blockchain.EventFilterer = ef
	if limit > 0 {
		efr = ef.WithLimit(limit)
	}
	var out []flatEvent
	var tok *blockchain.ContinuationToken
	pages := 0
	for {
		pages++
		if pages > 100000 {
			k.fail("events", "paging_never_ends", "event paging did not terminate for %s chunk=%d limit=%d", f, chunk, limit)
		}
		evs, next, err := efr.Events(tok, chunk)
		k.n.c.Evals++
		if err != nil {
			k.fail("events", "Events", "Events(%s, chunk=%d, limit=%d): %v", f, chunk, limit, err)
		}
		if uint64(len(evs)) > chunk {
			k.fail("events", "chunk_exceeded", "page of %d events exceeds chunk size %d", len(evs), chunk)
		}
		for _, e := range evs {
			bh := "nil"
			if e.BlockHash != nil {
				bh = e.BlockHash.String()
			}
			out = append(out, flatEvent{e.BlockNumber, bh, e.TransactionHash.String(), e.TransactionIndex, e.EventIndex, e.From.String(), feltList(e.Keys), feltList(e.Data)})
		}
		if next.IsEmpty() {
			break
		}
		n := next
		tok = &n
	}
	return out, pages
}

// preChain is the pre-confirmed chain handed to the event filter: blocks above the canonical head,
// oldest first, without hash (a pre-confirmed block has none yet).
type preChain struct{ items []*pending.PreConfirmed }

func (p preChain) Length() int                 { return len(p.items) }
func (p preChain) Head() *pending.PreConfirmed { return p.items[len(p.items)-1] }
func (p preChain) OldestFirst() iter.Seq[*pending.PreConfirmed] {
	return func(yield func(*pending.PreConfirmed) bool) {
		for _, it := range p.items {
			if !yield(it) {
				return
			}
		}
	}
}

// CheckEventsPre (C09, "plus pre-confirmed blocks when asked"): with a pre-confirmed chain on top
// of the head, a range that reaches above the head returns the canonical events followed by the
// matching events of the pre-confirmed blocks in range, for every paging.
func (k *checker) CheckEventsPre(f evFilter, pre []*chaingen.Block, chunks []uint64, limits []uint) {
	pc := preChain{}
	for _, b := range pre {
		blk := CloneBlock(b.B)
		blk.Hash = nil
		pc.items = append(pc.items, &pending.PreConfirmed{Block: blk, StateUpdate: CloneStateUpdate(b.SU)})
	}
	want := f.scan(k.m.Chain)
	for _, it := range pc.items {
		n := it.Block.Number
		if n < f.from || n > f.to {
			continue
		}
		for ti, r := range it.Block.Receipts {
			for ei, e := range r.Events {
				if f.matches(e) {
					want = append(want, flatEvent{n, "nil", r.TransactionHash.String(), uint(ti), uint(ei), e.From.String(), feltList(e.Keys), feltList(e.Data)})
				}
			}
		}
	}
	cw := canon(want)
	for _, ch := range chunks {
		for _, lim := range limits {
			got, pages := k.QueryEvents(f, ch, lim, func() (blockchain.PreConfirmedReader, error) { return pc, nil })
			if cg := canon(got); cg != cw {
				kind := "mismatch"
				if len(want) > len(got) {
					kind = "omitted"
				} else if len(got) > len(want) {
					kind = "extra"
				}
				k.fail("events_preconfirmed", kind, "event query %s over %d pre-confirmed blocks above head %d, chunk=%d limit=%d pages=%d: want %d events, got %d: %s", f, len(pre), k.m.Head().B.Number, ch, lim, pages, len(want), len(got), firstDiff(cw, cg))
			}
		}
	}
	if len(want) > len(f.scan(k.m.Chain)) {
		k.n.c.Probe("preconfirmed_event_matched")
	}
}

// CheckEvents (C09): concatenated pages equal the naive scan, for several chunk sizes / limits.
func (k *checker) CheckEvents(f evFilter, chunks []uint64, limits []uint) {
	want := f.scan(k.m.Chain)
	cw := canon(want)
	for _, ch := range chunks {
		for _, lim := range limits {
			got, pages := k.QueryEvents(f, ch, lim, nil)
			if cg := canon(got); cg != cw {
				missing := len(want) > len(got)
				kind := "mismatch"
				if missing {
					kind = "omitted"
				} else if len(got) > len(want) {
					kind = "extra"
				}
				k.fail("events", kind, "event query %s chunk=%d limit=%d pages=%d: want %d events, got %d: %s", f, ch, lim, pages, len(want), len(got), firstDiff(cw, cg))
			}
		}
	}
	if len(want) > 0 {
		k.n.c.Probe("event_query_nonempty")
	}
}
