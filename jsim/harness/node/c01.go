package node

import (
	"fmt"
	"math/big"

	"github.com/NethermindEth/juno/core"
	"github.com/NethermindEth/juno/core/crypto"
	"github.com/NethermindEth/juno/core/felt"
	"github.com/NethermindEth/juno/core/trie"
	"github.com/NethermindEth/juno/core/trie2"
	"github.com/NethermindEth/juno/core/trie2/triedb/rawdb"
	"github.com/NethermindEth/juno/core/trie2/trienode"
	"github.com/NethermindEth/juno/core/trie2/trieutils"
	"github.com/NethermindEth/juno/db"
	"github.com/NethermindEth/juno/db/memory"

	"jsim/refmpt"
	"jsim/refstate"
	"jsim/sim"
)

// trieUT is one persistent trie implementation under test.
type trieUT interface {
	Name() string
	Put(k, v *felt.Felt) error
	Get(k *felt.Felt) (felt.Felt, error)
	Root() (felt.Felt, error)
	Commit() error // make durable
	Reopen() error // drop every in-memory structure and open again from the database
	LeafByPath(k *felt.Felt) (felt.Felt, bool, error)
}

// ---- legacy trie on an indexed batch --------------------------------------------------------------

type legacyTrie struct {
	kv       db.KeyValueStore
	txn      db.IndexedBatch
	t        *trie.Trie
	poseidon bool
	height   uint8
}

func (l *legacyTrie) Name() string {
	return fmt.Sprintf("core/trie(poseidon=%v,h=%d)", l.poseidon, l.height)
}
func (l *legacyTrie) open() error {
	l.txn = l.kv.NewIndexedBatch()
	var err error
	if l.poseidon {
		l.t, err = trie.NewTriePoseidon(l.txn, []byte{0xaa}, l.height)
	} else {
		l.t, err = trie.NewTriePedersen(l.txn, []byte{0xaa}, l.height)
	}
	return err
}
func (l *legacyTrie) Put(k, v *felt.Felt) error           { _, err := l.t.Put(k, v); return err }
func (l *legacyTrie) Get(k *felt.Felt) (felt.Felt, error) { return l.t.Get(k) }
func (l *legacyTrie) Root() (felt.Felt, error)            { return l.t.Hash() }
func (l *legacyTrie) Commit() error {
	if err := l.t.Commit(); err != nil {
		return err
	}
	if err := l.txn.Write(); err != nil {
		return err
	}
	return l.open()
}
func (l *legacyTrie) Reopen() error { return l.open() } // uncommitted changes of the batch are dropped
func (l *legacyTrie) LeafByPath(k *felt.Felt) (felt.Felt, bool, error) {
	return felt.Zero, false, nil
}

// ---- trie2 over the raw trie database ----------------------------------------------------------------

type newTrie struct {
	kv       db.KeyValueStore
	tdb      *rawdb.Database
	t        *trie2.Trie
	owner    felt.Felt
	root     felt.Felt // last committed root (used as the non-zero state commitment of the id)
	height   uint8
	blockNum uint64
}

func (n *newTrie) Name() string { return "core/trie2+rawdb" }
func (n *newTrie) open() error {
	id := trieutils.NewContractStorageTrieID(felt.StateRootHash(n.root), felt.Address(n.owner))
	t, err := trie2.New(id, n.height, crypto.Pedersen, n.tdb)
	n.t = t
	return err
}
func (n *newTrie) Put(k, v *felt.Felt) error           { return n.t.Update(k, v) }
func (n *newTrie) Get(k *felt.Felt) (felt.Felt, error) { return n.t.Get(k) }
func (n *newTrie) Root() (felt.Felt, error)            { return n.t.Hash() }
func (n *newTrie) Commit() error {
	root, nodes := n.t.Commit()
	batch := n.kv.NewBatch()
	if nodes != nil {
		n.blockNum++
		err := n.tdb.Update((*felt.StateRootHash)(&root), (*felt.StateRootHash)(&n.root), n.blockNum, nil, trienode.NewMergeNodeSet(nodes), batch)
		if err != nil {
			return err
		}
	}
	if err := batch.Write(); err != nil {
		return err
	}
	// The id's state commitment only has to be non-zero for a non-empty trie (raw scheme).
	n.root = root
	if root.IsZero() {
		n.root = felt.Zero
	}
	return n.open()
}
func (n *newTrie) Reopen() error { return n.open() }
func (n *newTrie) LeafByPath(k *felt.Felt) (felt.Felt, bool, error) {
	path := trieutils.FeltToPath(k, n.height)
	v, err := trieutils.GetNodeByPath(n.kv, db.ContractTrieStorage, (*felt.Address)(&n.owner), &path, true)
	if err != nil {
		if notFound(err) {
			return felt.Zero, false, nil
		}
		return felt.Zero, false, err
	}
	return felt.FromBytes[felt.Felt](v), true, nil
}

// trieKeys: an alphabet biased to long shared prefixes, last-bit differences and the extremes.
func trieKeys(height int) []felt.Felt {
	var out []felt.Felt
	add := func(b *big.Int) {
		var f felt.Felt
		f.SetBigInt(b)
		out = append(out, f)
	}
	top := new(big.Int).Lsh(big.NewInt(1), uint(height))
	for _, v := range []int64{0, 1, 2, 3, 4, 5, 6, 7, 8, 16, 255, 256, 257} {
		if big.NewInt(v).Cmp(top) < 0 {
			add(big.NewInt(v))
		}
	}
	for _, d := range []int64{1, 2, 3, 4} {
		add(new(big.Int).Sub(top, big.NewInt(d)))
	}
	half := new(big.Int).Rsh(top, 1)
	for _, d := range []int64{-2, -1, 0, 1, 2} {
		add(new(big.Int).Add(half, big.NewInt(d)))
	}
	q := new(big.Int).Rsh(top, 2)
	add(q)
	add(new(big.Int).Add(q, big.NewInt(1)))
	add(new(big.Int).Add(half, q))
	return out
}

func trieRun(c *sim.Ctx) {
	t := c.T
	kind := t.Draw("trie.kind", 4)
	height := 251
	var ut trieUT
	var hashFn refmpt.HashFn = refmpt.Pedersen
	kv := memory.New()
	switch kind {
	case 0:
		l := &legacyTrie{kv: kv, height: 251}
		c.Must(l.open(), "open legacy trie")
		ut = l
	case 1:
		l := &legacyTrie{kv: kv, height: 251, poseidon: true}
		c.Must(l.open(), "open legacy trie")
		ut, hashFn = l, refmpt.Poseidon
	default:
		n := &newTrie{kv: kv, tdb: rawdb.New(kv), owner: felt.FromUint64[felt.Felt](0x77), height: 251}
		c.Must(n.open(), "open trie2")
		ut = n
	}
	keys := trieKeys(height)
	nKeys := 3 + t.Draw("trie.nkeys", len(keys)-2)
	// a run works on a tape-chosen subset so that small sets (single leaf, two siblings) are common
	perm := make([]int, len(keys))
	for i := range perm {
		perm[i] = i
	}
	for i := len(perm) - 1; i > 0; i-- {
		j := t.Draw("trie.perm", i+1)
		perm[i], perm[j] = perm[j], perm[i]
	}
	var ks []felt.Felt
	for _, i := range perm[:nKeys] {
		ks = append(ks, keys[i])
	}
	committed := map[felt.Felt]felt.Felt{}
	model := map[felt.Felt]felt.Felt{}
	c.Logf("trie run %s keys=%d", ut.Name(), nKeys)
	check := func(when string, durable bool) {
		root, err := ut.Root()
		want := refmpt.Root(model, height, hashFn)
		c.Evals++
		if err != nil || !root.Equal(&want) {
			c.Fail("trie_root", ut.Name()+"/"+when, "%s: root %s (%v) != reference %s for %d keys after %s", ut.Name(), root.String(), err, want.String(), len(model), when)
		}
		for _, k := range ks {
			got, err := ut.Get(&k)
			w := model[k]
			c.Evals++
			if err != nil || !got.Equal(&w) {
				c.Fail("trie_get", ut.Name()+"/"+when, "%s: Get(%s)=%s,%v want %s after %s", ut.Name(), k.String(), got.String(), err, w.String(), when)
			}
			if durable {
				lv, present, err := ut.LeafByPath(&k)
				if _, isNew := ut.(*newTrie); isNew {
					if err != nil || present != !w.IsZero() || (present && !lv.Equal(&w)) {
						c.Fail("trie_flat_leaf", ut.Name()+"/"+when, "%s: leaf read by path for key %s = %s (present=%v, %v) but the committed value is %s", ut.Name(), k.String(), lv.String(), present, err, w.String())
					}
				}
			}
		}
	}
	steps := 4 + t.Draw("trie.steps", 56)
	commits, deletes := 0, 0
	for s := 0; s < steps; s++ {
		switch op := t.Draw("trie.op", 12); {
		case op <= 6:
			k := ks[t.Draw("trie.key", len(ks))]
			var v felt.Felt
			switch t.Draw("trie.val", 5) {
			case 0: // delete, or zero write to an absent key
				if cur := model[k]; cur.IsZero() {
					c.Probe("zero_write_to_absent_key")
				} else {
					deletes++
				}
			case 1: // rewrite of the same value
				v = model[k]
			case 2: // a value at the edge of the field / of the hash operand decomposition
				bv := refmpt.BoundaryValues()
				v = bv[t.Draw("trie.boundary", len(bv))]
				c.Probe("boundary_value")
			default:
				v = felt.FromUint64[felt.Felt](uint64(1 + t.Draw("trie.v", 1000)))
			}
			c.Logf("put %s=%s", short(&k), short(&v))
			if err := ut.Put(&k, &v); err != nil {
				c.Fail("trie_put_failed", ut.Name(), "%s: Put(%s,%s): %v", ut.Name(), k.String(), v.String(), err)
			}
			if v.IsZero() {
				delete(model, k)
			} else {
				model[k] = v
			}
		case op <= 8:
			c.Logf("hash")
			check("hash", false)
		case op <= 10:
			c.Logf("commit")
			if err := ut.Commit(); err != nil {
				c.Fail("trie_commit_failed", ut.Name(), "%s: Commit: %v", ut.Name(), err)
			}
			commits++
			committed = map[felt.Felt]felt.Felt{}
			for k, v := range model {
				committed[k] = v
			}
			check("commit+reopen", true)
		default:
			c.Logf("reopen without commit")
			if err := ut.Reopen(); err != nil {
				c.Fail("trie_reopen_failed", ut.Name(), "%s: Reopen: %v", ut.Name(), err)
			}
			model = map[felt.Felt]felt.Felt{}
			for k, v := range committed {
				model[k] = v
			}
			check("reopen", true)
		}
	}
	check("final", false)
	if len(model) == 1 {
		c.Probe("single_leaf_trie")
	}
	if len(model) == 0 {
		c.Probe("empty_trie")
	}
	c.Nontrivial = commits > 0 && deletes > 0
}

// tempTrieRun compares the temporary-trie backends used for commitments with the reference.
func tempTrieRun(c *sim.Ctx) {
	t := c.T
	height := []int{64, 251, 8}[t.Draw("temp.height", 3)]
	n := t.Draw("temp.n", 40)
	model := map[felt.Felt]felt.Felt{}
	type kvp struct{ k, v felt.Felt }
	var seq []kvp
	for i := 0; i < n; i++ {
		var k felt.Felt
		if t.Draw("temp.keykind", 3) == 0 && height >= 64 {
			k = felt.FromUint64[felt.Felt](t.U64("temp.key") >> uint(64-min(height, 63)))
		} else {
			k = felt.FromUint64[felt.Felt](uint64(i)) // commitments use consecutive indices
		}
		if height == 8 {
			k = felt.FromUint64[felt.Felt](uint64(t.Draw("temp.key8", 256)))
		}
		v := felt.FromUint64[felt.Felt](uint64(t.Draw("temp.v", 50)))
		if t.Draw("temp.vclass", 6) == 5 {
			bv := refmpt.BoundaryValues()
			v = bv[t.Draw("temp.boundary", len(bv))]
		}
		seq = append(seq, kvp{k, v})
		if v.IsZero() {
			delete(model, k)
		} else {
			model[k] = v
		}
	}
	c.Logf("temp trie run height=%d entries=%d distinct=%d", height, n, len(model))
	type backend struct {
		name string
		run  func(uint8, func(core.Trie) error) error
		h    refmpt.HashFn
	}
	for _, b := range []backend{
		{"trie2.pedersen", core.TrieBackend.RunOnTempTriePedersen, refmpt.Pedersen},
		{"trie2.poseidon", core.TrieBackend.RunOnTempTriePoseidon, refmpt.Poseidon},
		{"trie.pedersen", core.DeprecatedTrieBackend.RunOnTempTriePedersen, refmpt.Pedersen},
		{"trie.poseidon", core.DeprecatedTrieBackend.RunOnTempTriePoseidon, refmpt.Poseidon},
	} {
		var got felt.Felt
		err := b.run(uint8(height), func(tr core.Trie) error {
			for _, e := range seq {
				if err := tr.Update(&e.k, &e.v); err != nil {
					return err
				}
			}
			var err error
			got, err = tr.Hash()
			return err
		})
		want := refmpt.Root(model, height, b.h)
		c.Evals++
		if err != nil || !got.Equal(&want) {
			c.Fail("temp_trie_root", b.name, "%s height %d: root %s (%v) != reference %s for %d entries", b.name, height, got.String(), err, want.String(), len(model))
		}
	}
	c.Nontrivial = len(model) >= 2
}

// C01: the state root is the protocol-defined commitment of the resulting state.
func C01(c *sim.Ctx) {
	switch cls := c.T.Draw("c01.class", 10); {
	case cls <= 4:
		trieRun(c)
	case cls <= 6:
		tempTrieRun(c)
	default:
		nodeRootRun(c)
	}
}

// nodeRootRun: both state backends in lock-step; after every stored / reverted block and after
// restarts the stored root and the commitment recomputed from the reopened tries equal the
// reference commitment, and both temporary-trie backends derive the same block hash.
func nodeRootRun(c *sim.Ctx) {
	p := newPair(c, true)
	defer p.close()
	t := c.T
	maxBlocks := 3 + t.Draw("max.blocks", 8)
	steps := 5 + t.Draw("steps", 14)
	reverts := 0
	crossed := false
	for s := 0; s < steps; s++ {
		op := t.Draw("op", 10)
		switch {
		case op <= 6 || len(p.m.Chain) == 0:
			if len(p.m.Chain) >= maxBlocks {
				continue
			}
			b := p.store()
			if len(p.m.Chain) > 1 && p.m.Chain[len(p.m.Chain)-2].Version < "0.14.0" && b.Version >= "0.14.0" {
				crossed = true
				c.Probe("crossed_0_14_0")
			}
			// the two temporary-trie backends must derive the same hash and commitments
			h1, c1, e1 := core.BlockHash(CloneBlock(b.B), b.SU.StateDiff, p.d.g.Net, nil, core.TrieBackend)
			h2, c2, e2 := core.BlockHash(CloneBlock(b.B), b.SU.StateDiff, p.d.g.Net, nil, core.DeprecatedTrieBackend)
			c.Evals++
			if e1 != nil || e2 != nil || !h1.Equal(&h2) || canon(c1) != canon(c2) {
				c.Fail("temp_backends_disagree", "block_hash", "block %d: trie2 backend hash %s (%v) vs legacy backend hash %s (%v)", b.B.Number, h1.String(), e1, h2.String(), e2)
			}
		case op <= 8:
			p.revert()
			reverts++
		default:
			p.restart(t.Draw("restart.node", len(p.nodes)), t.Draw("restart.graceful", 2) == 1)
		}
		for _, n := range p.nodes {
			k := &checker{n: n, m: p.m}
			k.CheckHead()
			k.CheckRoot()
		}
	}
	_ = crossed
	c.Nontrivial = len(p.m.Chain) >= 2 && reverts > 0
	_ = refstate.Height
}
