package rpcworld

// C09 in the rpc world: starknet_getEvents of v0.8 / v0.9 / v0.10 (rpc/v8|v9|v10/events.go) driven as
// request BYTES through the real jsonrpc.Server on a node with a seeded history (store, reorg of
// depth 1..4, graceful / ungraceful restart, filter-snapshot persistence, L1-head moves, optional
// pre-confirmed blocks on top of the head, tape-chosen rpc-max-block-scan limit).
//
// Files: c09rpc.go (world + history + entry point), c09rpc_query.go (request generation and the
// model's resolution of a request), c09rpc_check.go (paging, judging, violation keys).

import (
	"fmt"

	"github.com/NethermindEth/juno/core/pending"
	"github.com/NethermindEth/juno/jsonrpc"
	"github.com/NethermindEth/juno/rpc"
	rpcv10 "github.com/NethermindEth/juno/rpc/v10"
	rpcv8 "github.com/NethermindEth/juno/rpc/v8"
	rpcv9 "github.com/NethermindEth/juno/rpc/v9"
	junosync "github.com/NethermindEth/juno/sync"
	"github.com/NethermindEth/juno/sync/preconfirmed"
	"github.com/NethermindEth/juno/utils/log"

	"jsim/chaingen"
	"jsim/harness/node"
	"jsim/sim"
)

// evSync is the sync.Reader seam of the event runs: like stubSync, but PreConfirmedChain() serves
// what the current query round put on top of the head: nothing (error, as stubSync), the empty
// pre-confirmed block the real Synchronizer synthesises when it has no data
// (sync.MakeEmptyPreConfirmedForParent), or 1..3 generated pre-confirmed blocks (real
// preconfirmed.NewChain).
type evSync struct {
	stubSync
	e *evWorld
}

func (s evSync) PreConfirmedChain() (preconfirmed.ChainReader, error) {
	if s.e.preMode == preAbsent {
		return preconfirmed.ChainReader{}, pending.ErrPreConfirmedNotFound
	}
	return s.e.preChain, nil
}

const (
	preAbsent = "absent" // reader answers "not found"
	preEmpty  = "empty"  // one empty pre-confirmed block on the head (the real default)
	preBlocks = "blocks" // 1..3 pre-confirmed blocks with events
)

var evScanLimits = []uint{0, 0, 1, 2, 3, 5} // 0: none (the default math.MaxUint of rpc.New)

type evWorld struct {
	*World
	c *sim.Ctx
	k *Collector

	limit    uint // rpc-max-block-scan of the mounted handlers (0: not set)
	preMode  string
	pre      []*chaingen.Block // model of the pre-confirmed blocks (preBlocks only)
	preChain preconfirmed.ChainReader

	requests, maxReq int
	rounds, judged   int
	nonempty         int
	reorgs, persists int
}

// mount builds rpc.New on the CURRENT Blockchain with the event sync seam and the scan limit.
func (e *evWorld) mount() {
	logger := log.NewNopZapLogger()
	h := rpc.New(e.N.BC, evSync{stubSync{e.World}, e}, nil, "jsim", logger, e.N.Net)
	if e.limit > 0 {
		h = h.WithFilterLimit(e.limit)
	}
	e.srv = map[string]*jsonrpc.Server{}
	m8, _ := h.MethodsV0_8()
	m9, _ := h.MethodsV0_9()
	m10, _ := h.MethodsV0_10()
	for _, tb := range []struct {
		name    string
		methods []jsonrpc.Method
		srv     *jsonrpc.Server
	}{
		{"v0_8", m8, jsonrpc.NewServer(1, logger).WithValidator(rpcv8.Validator())},
		{"v0_9", m9, jsonrpc.NewServer(1, logger).WithValidator(rpcv9.Validator())},
		{"v0_10", m10, jsonrpc.NewServer(1, logger).WithValidator(rpcv10.Validator())},
	} {
		e.c.Must(tb.srv.RegisterMethods(tb.methods...), "register methods "+tb.name)
		e.srv[tb.name] = tb.srv
	}
}

func (e *evWorld) restart(graceful bool) {
	e.c.Logf("restart graceful=%v", graceful)
	e.N = e.N.Restart(graceful)
	e.mount()
	if graceful {
		e.c.Fault("graceful_restart")
	} else {
		e.c.Fault("ungraceful_restart")
	}
	e.Restarts++
}

func (e *evWorld) reorg(depth int) {
	e.c.Logf("reorg depth %d", depth)
	for d := 0; d < depth && len(e.M.Chain) > 0; d++ {
		e.Revert()
	}
	e.reorgs++
}

func (e *evWorld) persist() {
	e.c.Logf("persist event filter snapshot")
	if err := e.N.BC.WriteRunningEventFilter(); err != nil {
		e.c.Fail("valid_op_failed", "persist", "WriteRunningEventFilter: %v", err)
	}
	e.c.Fault("filter_snapshot_persisted")
	e.persists++
}

// setPre puts the round's pre-confirmed data on top of the current head.
func (e *evWorld) setPre(mode string) {
	t := e.c.T
	e.preMode, e.pre, e.preChain = mode, nil, preconfirmed.ChainReader{}
	head := e.M.Head()
	switch mode {
	case preEmpty:
		pc, err := junosync.MakeEmptyPreConfirmedForParent(e.N.BC, head.B.Header)
		e.c.Must(err, "MakeEmptyPreConfirmedForParent")
		ch, err := preconfirmed.NewChain(&pc)
		e.c.Must(err, "preconfirmed.NewChain(empty)")
		e.preChain = ch
	case preBlocks:
		parent := head
		var items []*pending.PreConfirmed
		for i, n := 0, 1+t.Draw("pre.blocks", 3); i < n; i++ {
			o := chaingen.Opts{Version: head.Version, Salt: 900000 + uint64(i), MaxTxs: 3, MaxEvents: 3, MaxDiff: 1, NoClasses: true}
			parent = e.D.Gen().Next(t, parent, o)
			e.pre = append(e.pre, parent)
			blk := node.CloneBlock(parent.B)
			blk.Hash = nil // a pre-confirmed block has no hash yet
			items = append(items, &pending.PreConfirmed{Block: blk, StateUpdate: node.CloneStateUpdate(parent.SU)})
		}
		ch, err := preconfirmed.NewChain(items...)
		e.c.Must(err, "preconfirmed.NewChain")
		e.preChain = ch
		e.c.Probe("preconfirmed_blocks_on_head")
	}
	e.c.Logf("pre-confirmed data: %s (%d blocks)", mode, len(e.pre))
}

// tip: number of the newest block a request can name (head or the newest pre-confirmed block).
func (e *evWorld) tip() uint64 {
	return e.M.Head().B.Number + uint64(len(e.pre))
}

// round: one query round = choose the scan limit and the pre-confirmed data, then judged queries and
// (sometimes) a reused token.
func (e *evWorld) round(nq int) {
	t := e.c.T
	if len(e.M.Chain) == 0 {
		// no block at all: what getEvents answers is not fixed (NO_BLOCKS is not in its error list);
		// one request is sent for the "never crashes / well-formed" part only
		e.preMode, e.pre = preAbsent, nil
		e.requests++
		r := e.Call(Versions[t.Draw("empty.version", len(Versions))], "starknet_getEvents", `{"filter":{"chunk_size":10}}`)
		e.c.Logf("getEvents on the empty chain (not judged): err=%v", r.IsErr())
		e.c.Probe("events_on_empty_chain")
		return
	}
	e.rounds++
	if lim := evScanLimits[t.Draw("scan.limit", len(evScanLimits))]; lim != e.limit {
		e.limit = lim
		e.mount()
	}
	if e.limit > 0 {
		e.c.Fault("scan_limit_set")
	}
	mode := preAbsent
	switch t.Draw("pre.mode", 6) {
	case 1, 2:
		mode = preEmpty
	case 3, 4, 5:
		mode = preBlocks
	}
	// pre-confirmed blocks exist only above an L1 head that is not ahead of the local chain
	if mode == preBlocks && e.M.L1Head != nil && e.M.L1Head.BlockNumber > e.M.Head().B.Number {
		mode = preEmpty
	}
	e.setPre(mode)
	e.c.Logf("query round %d: chain length %d, L1 head %s, scan limit %d", e.rounds, len(e.M.Chain), l1str(e.M.L1Head), e.limit)
	for i := 0; i < nq && e.requests < e.maxReq; i++ {
		q := e.genQuery()
		e.check(q)
	}
	if e.requests < e.maxReq && t.Draw("token.reuse", 4) == 0 {
		e.tokenReuse()
	}
	e.preMode, e.pre, e.preChain = preAbsent, nil, preconfirmed.ChainReader{}
}

// C09RPC: event queries through starknet_getEvents return exactly the matching events, in order,
// for any paging (property C09, rpc world part).
func C09RPC(c *sim.Ctx) {
	w := NewWorld(c)
	defer w.Close()
	t := c.T
	e := &evWorld{World: w, c: c, k: NewCollector(c), preMode: preAbsent, maxReq: 700}
	// events from a small alphabet so that filters hit often
	o := w.D.Opts()
	o.MaxTxs = 2 + t.Draw("ev.max.txs", 4)
	o.MaxEvents = 2 + t.Draw("ev.max.events", 3)
	o.MaxDiff = 1 + t.Draw("ev.max.diff", 3)
	e.limit = evScanLimits[t.Draw("scan.limit", len(evScanLimits))]
	e.mount()
	maxBlocks := 4 + t.Draw("max.blocks", 11)
	steps := 6 + t.Draw("steps", 16)
	c.Logf("event run: max blocks %d, steps %d, scan limit %d, opts %+v", maxBlocks, steps, e.limit, *o)
	for s := 0; s < steps; s++ {
		n := len(w.M.Chain)
		op := t.Draw("op", 20)
		switch {
		case op <= 8 || n == 0:
			if n >= maxBlocks {
				continue
			}
			w.Store()
		case op <= 11:
			e.reorg(1 + t.Draw("reorg.depth", 4))
		case op == 12:
			e.persist()
		case op == 13:
			e.restart(true)
		case op == 14:
			e.restart(false)
		case op == 15:
			// a reorg as the very first thing after a start (the event index is initialised lazily)
			e.restart(t.Draw("restart.graceful", 2) == 1)
			e.reorg(1 + t.Draw("reorg.depth", 3))
			c.Probe("reorg_first_thing_after_start")
		case op == 16:
			e.straddle()
		default:
			// L1 head below / at / above the local head
			var target uint64
			switch pos := t.Draw("l1.pos", 4); {
			case pos <= 1 && n >= 2:
				target = uint64(t.Draw("l1.below", n-1))
				c.Probe("l1_head_set_below_local_head")
			case pos == 2:
				target = uint64(n - 1)
				c.Probe("l1_head_set_at_local_head")
			default:
				target = uint64(n + t.Draw("l1.above", 3))
				c.Probe("l1_head_set_above_local_head")
			}
			w.SetL1Head(target)
		}
		if e.requests < e.maxReq && t.Draw("query.now", 3) != 0 {
			e.round(1 + t.Draw("round.queries", 3))
		}
	}
	if e.requests < e.maxReq || e.judged == 0 {
		e.round(3)
	}
	c.Nontrivial = e.reorgs > 0 && (e.Restarts+e.persists) > 0 && e.nonempty > 0
	c.Sample = map[string]any{"world": "rpc", "blocks": len(w.M.Chain), "reverted": len(w.M.Reverted), "requests": e.requests,
		"rounds": e.rounds, "judged_sequences": e.judged, "nonempty_sequences": e.nonempty}
	e.k.Report()
}

func evBlockDesc(b *chaingen.Block) string {
	n := 0
	for _, r := range b.B.Receipts {
		n += len(r.Events)
	}
	return fmt.Sprintf("block %d: %d txs, %d events", b.B.Number, len(b.B.Receipts), n)
}
