package rpcworld

import (
	"fmt"
	"math/big"
	"sort"

	"github.com/NethermindEth/juno/core/crypto"
	"github.com/NethermindEth/juno/core/felt"
	"github.com/NethermindEth/juno/core/trie"
	"github.com/NethermindEth/juno/core/trie2"
	"github.com/NethermindEth/juno/core/trie2/triedb/rawdb"
	"github.com/NethermindEth/juno/core/trie2/trienode"
	"github.com/NethermindEth/juno/core/trie2/trieutils"
	"github.com/NethermindEth/juno/db"
	"github.com/NethermindEth/juno/db/memory"

	"jsim/refmpt"
	"jsim/sim"
)

const trieHeight = 251

// proofTrie is one persistent trie implementation under test, with its prover and verifiers.
// The open / commit / reopen shape is the one of the C01 trie harness (node/c01.go).
type proofTrie interface {
	Name() string
	Put(k, v *felt.Felt) error
	Root() (felt.Felt, error)
	Commit() error
	Reopen() error
	HashFn() refmpt.HashFn
	// Prove returns the proof as produced (opaque) and its neutral form.
	Prove(k *felt.Felt) (orig any, es []PEntry, err error)
	VerifyOrig(root, k *felt.Felt, orig any) (felt.Felt, error)
	// Verify rebuilds the implementation's node set from neutral entries ("received from the wire").
	Verify(root, k *felt.Felt, es []PEntry) (felt.Felt, error)
	SupportsRange() bool
	RangeProof(first, last *felt.Felt) ([]PEntry, error)
	VerifyRange(root, first *felt.Felt, keys, vals []felt.Felt, es []PEntry, noProof bool) (bool, error)
}

// ---- core/trie on an indexed batch -------------------------------------------------------------------

type legacyPT struct {
	kv       db.KeyValueStore
	txn      db.IndexedBatch
	t        *trie.Trie
	poseidon bool
}

func (l *legacyPT) Name() string {
	if l.poseidon {
		return "core/trie(poseidon)"
	}
	return "core/trie(pedersen)"
}

func (l *legacyPT) open() error {
	l.txn = l.kv.NewIndexedBatch()
	var err error
	if l.poseidon {
		l.t, err = trie.NewTriePoseidon(l.txn, []byte{0xaa}, trieHeight)
	} else {
		l.t, err = trie.NewTriePedersen(l.txn, []byte{0xaa}, trieHeight)
	}
	return err
}
func (l *legacyPT) Put(k, v *felt.Felt) error { _, err := l.t.Put(k, v); return err }
func (l *legacyPT) Root() (felt.Felt, error)  { return l.t.Hash() }
func (l *legacyPT) Commit() error {
	if err := l.t.Commit(); err != nil {
		return err
	}
	if err := l.txn.Write(); err != nil {
		return err
	}
	return l.open()
}
func (l *legacyPT) Reopen() error { return l.open() }
func (l *legacyPT) HashFn() refmpt.HashFn {
	if l.poseidon {
		return refmpt.Poseidon
	}
	return refmpt.Pedersen
}
func (l *legacyPT) cryptoHash() crypto.HashFn {
	if l.poseidon {
		return crypto.Poseidon
	}
	return crypto.Pedersen
}

func legacyNeutral(set *trie.ProofNodeSet) []PEntry {
	keys, nodes := set.Keys(), set.List()
	out := make([]PEntry, len(nodes))
	for i, n := range nodes {
		e := PEntry{Key: keys[i]}
		switch x := n.(type) {
		case *trie.Binary:
			e.N = PNode{Binary: true, Left: *x.LeftHash, Right: *x.RightHash}
		case *trie.Edge:
			e.N = PNode{Child: *x.Child, Path: x.Path.Felt(), Len: x.Path.Len()}
		}
		out[i] = e
	}
	return out
}

func legacySet(es []PEntry) *trie.ProofNodeSet {
	set := trie.NewProofNodeSet()
	for i := range es {
		n := es[i].N
		if n.Binary {
			l, r := n.Left, n.Right
			set.Put(es[i].Key, &trie.Binary{LeftHash: &l, RightHash: &r})
		} else {
			c, p := n.Child, n.Path
			set.Put(es[i].Key, &trie.Edge{Child: &c, Path: new(trie.BitArray).SetFelt(n.Len, &p)})
		}
	}
	return set
}

func (l *legacyPT) Prove(k *felt.Felt) (any, []PEntry, error) {
	set := trie.NewProofNodeSet()
	if err := l.t.Prove(k, set); err != nil {
		return nil, nil, err
	}
	return set, legacyNeutral(set), nil
}
func (l *legacyPT) VerifyOrig(root, k *felt.Felt, orig any) (felt.Felt, error) {
	return trie.VerifyProof(root, k, orig.(*trie.ProofNodeSet), l.cryptoHash())
}
func (l *legacyPT) Verify(root, k *felt.Felt, es []PEntry) (felt.Felt, error) {
	return trie.VerifyProof(root, k, legacySet(es), l.cryptoHash())
}
func (l *legacyPT) SupportsRange() bool { return !l.poseidon } // VerifyRangeProof is Pedersen only
func (l *legacyPT) RangeProof(first, last *felt.Felt) ([]PEntry, error) {
	set := trie.NewProofNodeSet()
	if err := l.t.GetRangeProof(first, last, set); err != nil {
		return nil, err
	}
	return legacyNeutral(set), nil
}
func ptrs(xs []felt.Felt) []*felt.Felt {
	out := make([]*felt.Felt, len(xs))
	for i := range xs {
		v := xs[i]
		out[i] = &v
	}
	return out
}
func (l *legacyPT) VerifyRange(root, first *felt.Felt, keys, vals []felt.Felt, es []PEntry, noProof bool) (bool, error) {
	var set *trie.ProofNodeSet
	if !noProof {
		set = legacySet(es)
	}
	return trie.VerifyRangeProof(root, first, ptrs(keys), ptrs(vals), set)
}

// ---- core/trie2 over the raw trie database ----------------------------------------------------------------

type newPT struct {
	kv       db.KeyValueStore
	tdb      *rawdb.Database
	t        *trie2.Trie
	owner    felt.Felt
	root     felt.Felt
	blockNum uint64
}

func (n *newPT) Name() string { return "core/trie2+rawdb" }
func (n *newPT) open() error {
	id := trieutils.NewContractStorageTrieID(felt.StateRootHash(n.root), felt.Address(n.owner))
	t, err := trie2.New(id, trieHeight, crypto.Pedersen, n.tdb)
	n.t = t
	return err
}
func (n *newPT) Put(k, v *felt.Felt) error { return n.t.Update(k, v) }
func (n *newPT) Root() (felt.Felt, error)  { return n.t.Hash() }
func (n *newPT) Commit() error {
	root, nodes := n.t.Commit()
	batch := n.kv.NewBatch()
	if nodes != nil {
		n.blockNum++
		err := n.tdb.Update((*felt.StateRootHash)(&root), (*felt.StateRootHash)(&n.root), n.blockNum, nil, trienode.NewMergeNodeSet(nodes), batch)
		if err != nil {
			return err
		}
	}
	if err := batch.Write(); err != nil {
		return err
	}
	n.root = root
	return n.open()
}
func (n *newPT) Reopen() error         { return n.open() }
func (n *newPT) HashFn() refmpt.HashFn { return refmpt.Pedersen }

func nodeRef(n trienode.Node) (felt.Felt, bool) {
	switch x := n.(type) {
	case *trienode.HashNode:
		return felt.Felt(*x), false
	case *trienode.ValueNode:
		return felt.Felt(*x), true
	case nil:
		return felt.Zero, false
	}
	return n.Hash(crypto.Pedersen), false
}

func newNeutral(set *trie2.ProofNodeSet) []PEntry {
	keys, nodes := set.Keys(), set.List()
	out := make([]PEntry, len(nodes))
	for i, n := range nodes {
		e := PEntry{Key: keys[i]}
		switch x := n.(type) {
		case *trienode.BinaryNode:
			e.N.Binary = true
			e.N.Left, e.N.LeftVal = nodeRef(x.Children[0])
			e.N.Right, e.N.RightVal = nodeRef(x.Children[1])
		case *trienode.EdgeNode:
			e.N.Child, e.N.ChildVal = nodeRef(x.Child)
			e.N.Path, e.N.Len = x.Path.Felt(), x.Path.Len()
		}
		out[i] = e
	}
	return out
}

func mkRef(f felt.Felt, val bool) trienode.Node {
	if val {
		return (*trienode.ValueNode)(&f)
	}
	return (*trienode.HashNode)(&f)
}

// newSet rebuilds fresh nodes (no cached hash, as a receiver deserialising the proof would).
func newSet(es []PEntry) *trie2.ProofNodeSet {
	set := trie2.NewProofNodeSet()
	for i := range es {
		n := es[i].N
		if n.Binary {
			set.Put(es[i].Key, &trienode.BinaryNode{Children: [2]trienode.Node{mkRef(n.Left, n.LeftVal), mkRef(n.Right, n.RightVal)}})
		} else {
			p := n.Path
			set.Put(es[i].Key, &trienode.EdgeNode{Child: mkRef(n.Child, n.ChildVal), Path: new(trieutils.Path).SetFelt(n.Len, &p)})
		}
	}
	return set
}

func (n *newPT) Prove(k *felt.Felt) (any, []PEntry, error) {
	set := trie2.NewProofNodeSet()
	if err := n.t.Prove(k, set); err != nil {
		return nil, nil, err
	}
	return set, newNeutral(set), nil
}
func (n *newPT) VerifyOrig(root, k *felt.Felt, orig any) (felt.Felt, error) {
	return trie2.VerifyProof(root, k, orig.(*trie2.ProofNodeSet), crypto.Pedersen)
}
func (n *newPT) Verify(root, k *felt.Felt, es []PEntry) (felt.Felt, error) {
	return trie2.VerifyProof(root, k, newSet(es), crypto.Pedersen)
}
func (n *newPT) SupportsRange() bool { return true }
func (n *newPT) RangeProof(first, last *felt.Felt) ([]PEntry, error) {
	set := trie2.NewProofNodeSet()
	if err := n.t.GetRangeProof(first, last, set); err != nil {
		return nil, err
	}
	return newNeutral(set), nil
}
func (n *newPT) VerifyRange(root, first *felt.Felt, keys, vals []felt.Felt, es []PEntry, noProof bool) (bool, error) {
	var set *trie2.ProofNodeSet
	if !noProof {
		set = newSet(es)
	}
	return trie2.VerifyRangeProof(root, first, ptrs(keys), ptrs(vals), set)
}

// ---- keys ------------------------------------------------------------------------------------------------

func bigFelt(b *big.Int) felt.Felt {
	var f felt.Felt
	f.SetBigInt(b)
	return f
}

// proofKeys: the C01 alphabet (long shared prefixes, last-bit differences, extremes).
func proofKeys() []felt.Felt {
	var out []felt.Felt
	top := new(big.Int).Lsh(big.NewInt(1), trieHeight)
	for _, v := range []int64{0, 1, 2, 3, 4, 5, 6, 7, 8, 16, 255, 256, 257} {
		out = append(out, bigFelt(big.NewInt(v)))
	}
	for _, d := range []int64{1, 2, 3, 4} {
		out = append(out, bigFelt(new(big.Int).Sub(top, big.NewInt(d))))
	}
	half := new(big.Int).Rsh(top, 1)
	for _, d := range []int64{-2, -1, 0, 1, 2} {
		out = append(out, bigFelt(new(big.Int).Add(half, big.NewInt(d))))
	}
	q := new(big.Int).Rsh(top, 2)
	out = append(out, bigFelt(q), bigFelt(new(big.Int).Add(q, big.NewInt(1))), bigFelt(new(big.Int).Add(half, q)))
	return out
}

func sortedModelKeys(m map[felt.Felt]felt.Felt) []felt.Felt {
	ks := make([]felt.Felt, 0, len(m))
	for k := range m {
		ks = append(ks, k)
	}
	sort.Slice(ks, func(i, j int) bool { return feltBig(&ks[i]).Cmp(feltBig(&ks[j])) < 0 })
	return ks
}

// flipBit returns key with bit `bit` (0 = least significant) flipped.
func flipBit(k *felt.Felt, bit int) felt.Felt {
	b := feltBig(k)
	b.SetBit(b, bit, b.Bit(bit)^1)
	return bigFelt(b)
}

// ---- the run ---------------------------------------------------------------------------------------------

type trieWorld struct {
	c      *sim.Ctx
	k      *Collector
	ut     proofTrie
	alpha  []felt.Felt // keys of this run
	model  map[felt.Felt]felt.Felt
	stale  []PEntry  // a proof taken under an earlier root
	staleK felt.Felt // its key
	staleR felt.Felt // its root
	forged int
	proofs int
}

func (w *trieWorld) fail(class, key, format string, a ...any) {
	w.k.Add(class, w.ut.Name()+"/"+key, "%s: %s", w.ut.Name(), fmt.Sprintf(format, a...))
}

// pickKey: a key of the run's alphabet or a key derived from a present key by flipping one bit
// (which places the divergence at a chosen depth: root, inside an edge, last bit).
func (w *trieWorld) pickKey(label string) felt.Felt {
	t := w.c.T
	present := sortedModelKeys(w.model)
	switch k := t.Draw(label+".kind", 6); {
	case k <= 1 && len(present) > 0:
		return present[t.Draw(label+".present", len(present))]
	case k == 2 && len(present) > 0:
		p := present[t.Draw(label+".base", len(present))]
		bit := []int{0, 1, 2, 8, 100, 249, 250}[t.Draw(label+".bit", 7)]
		return flipBit(&p, bit)
	}
	return w.alpha[t.Draw(label, len(w.alpha))]
}

func trieProofRun(c *sim.Ctx, k *Collector) {
	t := c.T
	kv := memory.New()
	var ut proofTrie
	switch t.Draw("trie.kind", 4) {
	case 0:
		l := &legacyPT{kv: kv}
		c.Must(l.open(), "open legacy trie")
		ut = l
	case 1:
		l := &legacyPT{kv: kv, poseidon: true}
		c.Must(l.open(), "open legacy trie")
		ut = l
	default:
		n := &newPT{kv: kv, tdb: rawdb.New(kv), owner: felt.FromUint64[felt.Felt](0x77)}
		c.Must(n.open(), "open trie2")
		ut = n
	}
	keys := proofKeys()
	nKeys := 2 + t.Draw("trie.nkeys", len(keys)-1)
	perm := make([]int, len(keys))
	for i := range perm {
		perm[i] = i
	}
	for i := len(perm) - 1; i > 0; i-- {
		j := t.Draw("trie.perm", i+1)
		perm[i], perm[j] = perm[j], perm[i]
	}
	w := &trieWorld{c: c, k: k, ut: ut, model: map[felt.Felt]felt.Felt{}}
	for _, i := range perm[:nKeys] {
		w.alpha = append(w.alpha, keys[i])
	}
	committed := map[felt.Felt]felt.Felt{}
	c.Logf("trie proof run %s keys=%d", ut.Name(), nKeys)
	c.Fault("trie_impl_" + ut.Name())
	steps := 4 + t.Draw("trie.steps", 40)
	commits, reopens, deletes := 0, 0, 0
	// an early look at the empty trie
	if t.Draw("trie.check_empty", 3) == 0 {
		w.checkPoint("empty")
	}
	for s := 0; s < steps; s++ {
		switch op := t.Draw("trie.op", 12); {
		case op <= 6:
			key := w.alpha[t.Draw("trie.key", len(w.alpha))]
			var v felt.Felt
			switch t.Draw("trie.val", 5) {
			case 0:
				if cur := w.model[key]; !cur.IsZero() {
					deletes++
				}
			case 1:
				v = w.model[key]
			default:
				v = felt.FromUint64[felt.Felt](uint64(1 + t.Draw("trie.v", 1000)))
			}
			c.Logf("put %s=%s", short(&key), short(&v))
			if err := ut.Put(&key, &v); err != nil {
				c.Fail("trie_put_failed", ut.Name(), "%s: Put(%s,%s): %v", ut.Name(), key.String(), v.String(), err)
			}
			if v.IsZero() {
				delete(w.model, key)
			} else {
				w.model[key] = v
			}
		case op <= 8:
			c.Logf("commit")
			if err := ut.Commit(); err != nil {
				c.Fail("trie_commit_failed", ut.Name(), "%s: Commit: %v", ut.Name(), err)
			}
			commits++
			committed = map[felt.Felt]felt.Felt{}
			for kk, v := range w.model {
				committed[kk] = v
			}
			w.checkPoint("commit+reopen")
		case op == 9:
			c.Logf("reopen without commit")
			if err := ut.Reopen(); err != nil {
				c.Fail("trie_reopen_failed", ut.Name(), "%s: Reopen: %v", ut.Name(), err)
			}
			reopens++
			w.model = map[felt.Felt]felt.Felt{}
			for kk, v := range committed {
				w.model[kk] = v
			}
			w.checkPoint("reopen")
		default:
			c.Logf("hash")
			w.checkPoint("hash")
		}
	}
	w.checkPoint("final")
	c.Nontrivial = commits > 0 && w.forged > 0 && w.proofs > 0
	c.Sample = map[string]any{"trie": ut.Name(), "keys": nKeys, "commits": commits, "reopens": reopens, "deletes": deletes, "proofs": w.proofs, "forgeries": w.forged}
}

// checkPoint: proofs for tape-chosen keys, forgeries of them, range proofs and forged ranges.
func (w *trieWorld) checkPoint(when string) {
	c, t, ut := w.c, w.c.T, w.ut
	h := ut.HashFn()
	root, err := ut.Root()
	want := refmpt.Root(w.model, trieHeight, h)
	c.Evals++
	if err != nil || !root.Equal(&want) {
		c.Fail("trie_root", ut.Name()+"/"+when, "%s: root %s (%v) != reference %s for %d keys after %s", ut.Name(), root.String(), err, want.String(), len(w.model), when)
	}
	c.Logf("check point %s: %d keys, root %s", when, len(w.model), short(&root))
	nq := 1 + t.Draw("proof.n", 3)
	for i := 0; i < nq; i++ {
		key := w.pickKey("proof.key")
		w.proveAndForge(when, &root, &key)
	}
	if ut.SupportsRange() && t.Draw("range?", 2) == 0 {
		w.rangeCheck(when, &root)
	}
}

func (w *trieWorld) proveAndForge(when string, root, key *felt.Felt) {
	c, t, ut := w.c, w.c.T, w.ut
	h := ut.HashFn()
	mv := w.model[*key]
	orig, es, err := ut.Prove(key)
	c.Evals++
	w.proofs++
	if err != nil {
		w.fail("prove_failed", "prove", "Prove(%s) failed on a trie with %d keys: %v", key.String(), len(w.model), err)
		return
	}
	// the reference verifier must accept the proof against the reference root with the model value
	ref, rerr := RefVerify(root, key, es, trieHeight, h)
	if rerr != nil {
		w.fail("honest_proof_rejected_by_reference", "reference", "proof of key %s (model value %s, %d nodes) is not a valid protocol proof against root %s: %v", key.String(), mv.String(), len(es), root.String(), rerr)
		return
	}
	if !ref.Value.Equal(&mv) {
		w.fail("honest_proof_wrong_value_reference", "reference", "proof of key %s establishes %s by the reference verifier, the trie holds %s", key.String(), ref.Value.String(), mv.String())
		return
	}
	shape := "present"
	if ref.Absent {
		shape = "absent_" + absentShape(ref, trieHeight)
	}
	c.Probe("proof_" + shape)
	c.Logf("prove %s: %s, %d nodes", short(key), shape, len(es))
	for i := range es {
		if hh := es[i].N.Hash(h); !hh.Equal(&es[i].Key) {
			w.fail("proof_node_filed_under_wrong_hash", "node_hash", "proof node %s is filed under %s but hashes to %s", es[i].N.String(), es[i].Key.String(), hh.String())
			return
		}
	}
	got, verr := ut.VerifyOrig(root, key, orig)
	c.Evals++
	if len(w.model) == 0 {
		// empty trie (root 0, empty proof): whether VerifyProof reports "absent" or an error is not
		// fixed by the statement; it must not establish a value
		if verr == nil && !got.IsZero() {
			w.fail("honest_proof_wrong_value", "empty_trie", "VerifyProof on the empty trie established %s for key %s", got.String(), key.String())
		}
		if verr != nil {
			c.Probe("empty_trie_verify_is_error")
		}
		return
	}
	if verr != nil {
		w.fail("honest_proof_rejected", shape, "VerifyProof(root, %s, Prove(%s)) failed: %v (model value %s, %d proof nodes, at %s)", key.String(), key.String(), verr, mv.String(), len(es), when)
		return
	}
	if !got.Equal(&mv) {
		w.fail("honest_proof_wrong_value", shape, "VerifyProof(root, %s, Prove(%s)) = %s but the trie holds %s (at %s)", key.String(), key.String(), got.String(), mv.String(), when)
		return
	}
	// round trip through the neutral ("wire") form must verify as well
	if got2, err2 := ut.Verify(root, key, es); err2 != nil || !got2.Equal(&mv) {
		w.fail("honest_proof_rejected", "rebuilt/"+shape, "proof rebuilt from its nodes: VerifyProof = %s, %v; want %s", got2.String(), err2, mv.String())
		return
	}
	// forgeries
	nf := 1 + t.Draw("forge.n", 3)
	for i := 0; i < nf; i++ {
		w.forgeOne(when, root, key, es)
	}
	if !root.Equal(&w.staleR) && len(es) > 0 && t.Draw("stale.keep", 3) == 0 {
		w.stale, w.staleK, w.staleR = cloneEntries(es), *key, *root
	}
}

// otherFelt returns a felt different from f, tape-chosen among "near" and "far" alternatives.
func (w *trieWorld) otherFelt(f *felt.Felt) felt.Felt {
	t := w.c.T
	var out felt.Felt
	switch t.Draw("forge.other", 4) {
	case 0:
		out.Add(f, &felt.One)
	case 1:
		out = felt.FromUint64[felt.Felt](uint64(1 + t.Draw("forge.small", 1000)))
	case 2:
		// a value that exists elsewhere in the model (a plausible substitution)
		ks := sortedModelKeys(w.model)
		if len(ks) > 0 {
			out = w.model[ks[t.Draw("forge.modelv", len(ks))]]
			break
		}
		fallthrough
	default:
		out = felt.FromUint64[felt.Felt](w.c.T.U64("forge.rand") | 1)
	}
	if out.Equal(f) {
		out.Add(f, &felt.One)
	}
	return out
}

func (w *trieWorld) forgeOne(when string, root, key *felt.Felt, honest []PEntry) {
	c, t, ut := w.c, w.c.T, w.ut
	es := cloneEntries(honest)
	claimKey := *key
	kind := ""
	desc := ""
	switch k := t.Draw("forge.kind", 6); {
	case k <= 1 && len(es) > 0: // change one field of one node
		i := t.Draw("forge.node", len(es))
		n := &es[i].N
		if n.Binary {
			switch t.Draw("forge.bfield", 3) {
			case 0:
				n.Left = w.otherFelt(&n.Left)
				desc = "left"
			case 1:
				n.Right = w.otherFelt(&n.Right)
				desc = "right"
			default:
				n.Left, n.Right = n.Right, n.Left
				n.LeftVal, n.RightVal = n.RightVal, n.LeftVal
				desc = "swap"
				if n.Left.Equal(&n.Right) {
					n.Left = w.otherFelt(&n.Left)
				}
			}
		} else {
			switch t.Draw("forge.efield", 3) {
			case 0:
				n.Child = w.otherFelt(&n.Child)
				desc = "child"
			case 1:
				n.Path = flipBit(&n.Path, t.Draw("forge.pathbit", int(n.Len)))
				desc = "path"
			default:
				if n.Len > 1 && t.Draw("forge.lendir", 2) == 0 {
					n.Len--
					// keep the path a valid n.Len-bit number
					p := feltBig(&n.Path)
					p.SetBit(p, int(n.Len), 0)
					n.Path = bigFelt(p)
				} else if n.Len < 251 {
					n.Len++
				} else {
					n.Len--
					p := feltBig(&n.Path)
					p.SetBit(p, int(n.Len), 0)
					n.Path = bigFelt(p)
				}
				desc = "length"
			}
		}
		if t.Draw("forge.rekey", 3) == 0 {
			es[i].Key = es[i].N.Hash(ut.HashFn())
			desc += "+refiled"
		}
		kind = "field"
		desc = fmt.Sprintf("node %d %s", i, desc)
	case k == 2 && len(es) > 0: // remove a node
		i := t.Draw("forge.node", len(es))
		es = append(es[:i:i], es[i+1:]...)
		kind, desc = "remove", fmt.Sprintf("node %d removed", i)
	case k == 3 && len(es) > 0: // replace a node by one of another key's proof
		other := w.pickKey("forge.donor")
		_, des, err := ut.Prove(&other)
		if err != nil || len(des) == 0 {
			return
		}
		i := t.Draw("forge.node", len(es))
		j := t.Draw("forge.donor.node", len(des))
		if des[j].Key.Equal(&es[i].Key) {
			return // same node: not a forgery
		}
		es[i].N = des[j].N
		if t.Draw("forge.rekey", 3) == 0 {
			es[i].Key = des[j].Key
		}
		kind, desc = "replace", fmt.Sprintf("node %d replaced by node %d of the proof of %s", i, j, short(&other))
	case k == 4 && len(w.stale) > 0 && !w.staleR.Equal(root): // a proof taken under an earlier root
		es, claimKey = cloneEntries(w.stale), w.staleK
		kind, desc = "stale", "proof taken under an earlier root"
	default: // claim the proof for another key
		claimKey = w.pickKey("forge.key")
		if claimKey.Equal(key) {
			claimKey = flipBit(key, []int{0, 1, 100, 250}[t.Draw("forge.keybit", 4)])
		}
		kind, desc = "key", "claimed for key "+short(&claimKey)
	}
	w.forged++
	c.Fault("forged_proof_" + kind)
	truth := w.model[claimKey]
	got, err := ut.Verify(root, &claimKey, es)
	c.Evals++
	verdict := "rejected"
	if err == nil {
		verdict = "accepted_true_value"
	}
	c.Logf("forge %s (%s): %s", kind, desc, verdict)
	if err == nil && !got.Equal(&truth) {
		w.fail("forged_proof_accepted", kind, "forged proof (%s; honest proof was for key %s) verifies: VerifyProof(root, %s) = %s but the trie holds %s [at %s, %d keys]",
			desc, key.String(), claimKey.String(), got.String(), truth.String(), when, len(w.model))
	}
	if err == nil {
		c.Probe("forgery_proves_true_fact")
	}
	// the reference verifier must be sound on the same input (otherwise the oracle itself is broken)
	if r, rerr := RefVerify(root, &claimKey, es, trieHeight, ut.HashFn()); rerr == nil && !r.Value.Equal(&truth) {
		c.Broken("reference verifier accepted a forged proof (%s): %s for key %s, truth %s", desc, r.Value.String(), claimKey.String(), truth.String())
	}
}

// ---- range proofs --------------------------------------------------------------------------------------

func feltsEqual(a, b []felt.Felt) bool {
	if len(a) != len(b) {
		return false
	}
	for i := range a {
		if !a[i].Equal(&b[i]) {
			return false
		}
	}
	return true
}

func (w *trieWorld) rangeCheck(when string, root *felt.Felt) {
	c, t, ut := w.c, w.c.T, w.ut
	present := sortedModelKeys(w.model)
	first := w.pickKey("range.first")
	all, _ := modelRange(w.model, &first, nil)
	whole := t.Draw("range.whole", 6) == 0
	var keys, vals []felt.Felt
	var es []PEntry
	var err error
	noProof := false
	switch {
	case whole:
		// the whole trie without any edge proof
		zero := felt.Zero
		first = zero
		keys, vals = modelRange(w.model, &first, nil)
		noProof = true
	case len(all) == 0:
		// empty range: only acceptable when nothing lies to the right of first
		_, es, err = ut.Prove(&first)
	default:
		n := 1 + t.Draw("range.n", len(all))
		last := all[n-1]
		keys, vals = modelRange(w.model, &first, &last)
		es, err = ut.RangeProof(&first, &last)
	}
	if err != nil {
		w.fail("range_prove_failed", "range", "GetRangeProof from %s failed: %v", first.String(), err)
		return
	}
	if len(present) == 0 && !noProof {
		return // empty trie: see proveAndForge
	}
	lastStr := "-"
	if len(keys) > 0 {
		lastStr = short(&keys[len(keys)-1])
	}
	c.Logf("range proof first=%s last=%s n=%d nodes=%d whole=%v", short(&first), lastStr, len(keys), len(es), whole)
	more, verr := ut.VerifyRange(root, &first, keys, vals, es, noProof)
	c.Evals++
	shape := "multi"
	switch {
	case whole:
		shape = "whole_trie"
	case len(keys) == 0:
		shape = "empty"
	case len(keys) == 1:
		shape = "single"
	}
	c.Probe("range_" + shape)
	if verr != nil {
		w.fail("honest_range_proof_rejected", shape, "VerifyRangeProof(first=%s, keys=%s, %d proof nodes) failed: %v [at %s; the trie holds %s]", first.String(), feltList(keys), len(es), verr, when, feltList(present))
		return
	}
	// "more elements to the right" as documented
	wantMore := false
	if len(keys) > 0 && !whole {
		lk := keys[len(keys)-1]
		for _, p := range present {
			if feltBig(&p).Cmp(feltBig(&lk)) > 0 {
				wantMore = true
			}
		}
	}
	if more != wantMore {
		// the "more elements" flag is documented but not part of the property: recorded, not raised
		c.Probe("range_more_flag_wrong")
	}
	nf := 1 + t.Draw("rforge.n", 3)
	for i := 0; i < nf; i++ {
		w.forgeRange(when, root, &first, keys, vals, es, noProof)
	}
}

func (w *trieWorld) forgeRange(when string, root, first *felt.Felt, keys0, vals0 []felt.Felt, es0 []PEntry, noProof bool) {
	c, t, ut := w.c, w.c.T, w.ut
	keys := append([]felt.Felt(nil), keys0...)
	vals := append([]felt.Felt(nil), vals0...)
	es := cloneEntries(es0)
	f := *first
	kind, desc := "", ""
	switch k := t.Draw("rforge.kind", 6); {
	case k == 0 && len(keys) > 0:
		i := t.Draw("rforge.i", len(keys))
		vals[i] = w.otherFelt(&vals[i])
		kind, desc = "value", fmt.Sprintf("value of element %d/%d changed", i, len(keys))
	case k <= 2 && len(keys) > 0:
		i := t.Draw("rforge.i", len(keys))
		pos := "middle"
		if i == 0 {
			pos = "first"
		} else if i == len(keys)-1 {
			pos = "last"
		}
		desc = fmt.Sprintf("element %d/%d (%s, key %s) removed", i, len(keys), pos, short(&keys[i]))
		keys = append(keys[:i:i], keys[i+1:]...)
		vals = append(vals[:i:i], vals[i+1:]...)
		kind = "remove"
	case k == 3:
		// add an absent key inside [first, last]
		var cand []felt.Felt
		hi := f
		if len(keys) > 0 {
			hi = keys[len(keys)-1]
		}
		pool := append(append([]felt.Felt(nil), w.alpha...), proofKeys()...)
		for _, a := range pool {
			if _, ok := w.model[a]; ok {
				continue
			}
			if feltBig(&a).Cmp(feltBig(&f)) >= 0 && feltBig(&a).Cmp(feltBig(&hi)) <= 0 {
				cand = append(cand, a)
			}
		}
		if len(cand) == 0 {
			return
		}
		a := cand[t.Draw("rforge.add", len(cand))]
		v := felt.FromUint64[felt.Felt](uint64(1 + t.Draw("rforge.addv", 1000)))
		i := sort.Search(len(keys), func(i int) bool { return feltBig(&keys[i]).Cmp(feltBig(&a)) >= 0 })
		keys = append(keys[:i:i], append([]felt.Felt{a}, keys[i:]...)...)
		vals = append(vals[:i:i], append([]felt.Felt{v}, vals[i:]...)...)
		kind, desc = "add", fmt.Sprintf("absent key %s added at position %d", short(&a), i)
	case k == 4 && len(es) > 0 && !noProof:
		i := t.Draw("rforge.node", len(es))
		n := &es[i].N
		if n.Binary {
			if t.Draw("rforge.side", 2) == 0 {
				n.Left = w.otherFelt(&n.Left)
			} else {
				n.Right = w.otherFelt(&n.Right)
			}
		} else if t.Draw("rforge.efield", 2) == 0 {
			n.Child = w.otherFelt(&n.Child)
		} else {
			n.Path = flipBit(&n.Path, t.Draw("rforge.pathbit", int(n.Len)))
		}
		kind, desc = "node", fmt.Sprintf("proof node %d altered", i)
	default:
		// claim the same elements for a range that starts further left
		fb := feltBig(&f)
		if fb.Sign() == 0 {
			return
		}
		nf := new(big.Int).Sub(fb, big.NewInt(int64(1+t.Draw("rforge.shift", 8))))
		if nf.Sign() < 0 {
			nf.SetInt64(0)
		}
		f = bigFelt(nf)
		kind, desc = "first", fmt.Sprintf("first moved left from %s to %s", short(first), short(&f))
	}
	w.forged++
	c.Fault("forged_range_" + kind)
	more, err := ut.VerifyRange(root, &f, keys, vals, es, noProof)
	c.Evals++
	verdict := "rejected"
	if err == nil {
		verdict = "accepted"
	}
	c.Logf("forge range %s (%s): %s", kind, desc, verdict)
	if err != nil {
		return
	}
	// accepted: then the claim must be TRUE: the claimed elements are exactly the trie's content of
	// [first, last claimed key] (no claimed key: nothing at or right of first)
	var tk, tv []felt.Felt
	if len(keys) > 0 {
		tk, tv = modelRange(w.model, &f, &keys[len(keys)-1])
	} else {
		tk, tv = modelRange(w.model, &f, nil)
	}
	if !feltsEqual(tk, keys) || !feltsEqual(tv, vals) {
		sub := falseClaim(&f, keys, vals, tk, tv)
		w.k.Add("forged_range_accepted_"+sub, ut.Name(), "%s: forged range proof (%s) verifies (more=%v): VerifyRangeProof(first=%s, keys=%s, values=%s, %d proof nodes) returned no error, but the trie holds keys=%s values=%s in that range [at %s; all keys of the trie: %s]",
			ut.Name(), desc, more, f.String(), feltList(keys), feltList(vals), len(es), feltList(tk), feltList(tv), when, feltList(sortedModelKeys(w.model)))
		return
	}
	c.Probe("range_forgery_proves_true_fact")
}

func feltList(xs []felt.Felt) string {
	out := "["
	for i := range xs {
		if i > 0 {
			out += " "
		}
		if i == 10 {
			out += fmt.Sprintf("... %d more", len(xs)-10)
			break
		}
		out += xs[i].String()
	}
	return out + "]"
}

// falseClaim names what is false about an accepted range claim (stable violation sub-class).
func falseClaim(first *felt.Felt, keys, vals, tk, tv []felt.Felt) string {
	if len(keys) == 0 {
		return "empty_claim_but_elements_exist"
	}
	claimed := map[felt.Felt]felt.Felt{}
	for i := range keys {
		claimed[keys[i]] = vals[i]
	}
	truth := map[felt.Felt]felt.Felt{}
	for i := range tk {
		truth[tk[i]] = tv[i]
	}
	for i := range keys {
		tvv, ok := truth[keys[i]]
		if !ok {
			return "extra_element"
		}
		if !tvv.Equal(&vals[i]) {
			return "wrong_value"
		}
	}
	for i := range tk {
		if _, ok := claimed[tk[i]]; ok {
			continue
		}
		switch {
		case tk[i].Equal(first):
			return "omits_element_at_first_key"
		case feltBig(&tk[i]).Cmp(feltBig(&keys[0])) < 0:
			return "omits_element_before_first_claimed"
		}
		return "omits_inner_element"
	}
	return "other"
}
