package rpcworld

import (
	"fmt"
	"strings"

	"github.com/NethermindEth/juno/core"
	"github.com/NethermindEth/juno/core/felt"
	"github.com/NethermindEth/juno/rpc/rpccore"
)

// Error codes of starknet_getEvents in the specification (PAGE_SIZE_TOO_BIG, INVALID_CONTINUATION_TOKEN,
// BLOCK_NOT_FOUND, TOO_MANY_KEYS_IN_FILTER) plus JSON-RPC's "Invalid params".
const (
	codePageSizeTooBig = 31
	codeInvalidToken   = 33
	codeTooManyKeys    = 34
	codeInvalidParams  = -32602
)

func evCodeStr(c int) string {
	switch c {
	case codeBlockNotFound:
		return "BLOCK_NOT_FOUND"
	case codePageSizeTooBig:
		return "PAGE_SIZE_TOO_BIG"
	case codeInvalidToken:
		return "INVALID_CONTINUATION_TOKEN"
	case codeTooManyKeys:
		return "TOO_MANY_KEYS_IN_FILTER"
	case codeInvalidParams:
		return "INVALID_PARAMS"
	}
	return fmt.Sprint(c)
}

// which API versions know a request's vocabulary
const (
	onV8 = 1 << iota
	onV9
	onV10
	onAll = onV8 | onV9 | onV10
	onNew = onV9 | onV10
)

var verBit = map[string]int{"v0_8": onV8, "v0_9": onV9, "v0_10": onV10}

// evBound is one end of the block range with its resolution in the MODEL.
type evBound struct {
	json  string // "" = member absent
	class string // coarse kind (violation key)
	n     uint64 // resolved block number (meaningful when !unknown)
	// unknown: the id names no block (unknown hash, l1_accepted without an L1 head): BLOCK_NOT_FOUND
	unknown bool
	// mayNotFound: the id names no block the node holds, a server may answer with the empty page or
	// with BLOCK_NOT_FOUND (number above the newest block, pre_confirmed without pre-confirmed data)
	mayNotFound bool
	vers        int
}

// evQuery is one generated request body (filter + page request) with the model's reading of it.
type evQuery struct {
	from, to evBound
	addrForm string // absent | single | list
	addrs    []felt.Felt
	keys     [][]felt.Felt
	keysForm string // absent | given
	chunk    uint64
	upper    bool // hex digits of addresses / keys in upper case
	named    bool // {"filter":{...}} or [{...}]
	vers     int

	// anomalies: the request must be answered with an error whose code is in mustErr
	mustErr  []int
	anomaly  string
	rawChunk string // chunk_size member as written ("" = from chunk; "-" = member left out)
	rawOver  map[string]string
	noModel  bool // the specification leaves the expectation open: only paging invariance and version agreement are judged
	bigKeys  int // number of filler alternatives put into key position 0 (oversized filters)
	withPre  bool
}

func (q *evQuery) rangeClass() string { return q.from.class + ".." + q.to.class }

func reqHex(f *felt.Felt, upper bool) string {
	s := fhex(f)
	if upper {
		s = "0x" + strings.ToUpper(s[2:])
	}
	return s
}

// filterJSON renders the request's filter object for one page.
func (q *evQuery) filterJSON(chunk uint64, token string) string {
	var parts []string
	add := func(name, val string) {
		if o, ok := q.rawOver[name]; ok {
			val = o
		}
		if val != "" {
			parts = append(parts, jstr(name)+":"+val)
		}
	}
	add("from_block", q.from.json)
	add("to_block", q.to.json)
	addr := ""
	switch q.addrForm {
	case "single":
		addr = jstr(reqHex(&q.addrs[0], q.upper))
	case "list":
		xs := make([]string, len(q.addrs))
		for i := range q.addrs {
			xs[i] = jstr(reqHex(&q.addrs[i], q.upper))
		}
		addr = "[" + strings.Join(xs, ",") + "]"
	}
	add("address", addr)
	keys := ""
	if q.keysForm == "given" {
		pos := make([]string, len(q.keys))
		for i, alts := range q.keys {
			xs := make([]string, 0, len(alts)+q.bigKeys)
			for j := range alts {
				xs = append(xs, jstr(reqHex(&alts[j], q.upper)))
			}
			if i == 0 {
				for j := 0; j < q.bigKeys; j++ {
					xs = append(xs, fmt.Sprintf(`"0x%x"`, 0x1000000+j))
				}
			}
			pos[i] = "[" + strings.Join(xs, ",") + "]"
		}
		keys = "[" + strings.Join(pos, ",") + "]"
	}
	add("keys", keys)
	switch q.rawChunk {
	case "":
		add("chunk_size", fmt.Sprint(chunk))
	case "-":
	default:
		add("chunk_size", q.rawChunk)
	}
	if token != "" {
		add("continuation_token", jstr(token))
	}
	return "{" + strings.Join(parts, ",") + "}"
}

func (q *evQuery) params(chunk uint64, token string) string {
	if q.named {
		return `{"filter":` + q.filterJSON(chunk, token) + `}`
	}
	return "[" + q.filterJSON(chunk, token) + "]"
}

// describe: short, deterministic text for trace and details (oversized key lists summarised).
func (q *evQuery) describe() string {
	s := q.filterJSON(q.chunk, "")
	if len(s) > 500 {
		s = s[:500] + fmt.Sprintf("...(%d bytes)", len(s))
	}
	return s
}

// ---- generation ----------------------------------------------------------------------------------------

var evChunkSizes = []uint64{1, 2, 3, 7, 1000, rpccore.MaxEventChunkSize}

func (e *evWorld) genTo() evBound {
	t, m := e.c.T, e.M
	head := m.Head().B.Number
	switch k := t.Draw("to.kind", 14); {
	case k <= 2:
		// an absent to_block is only generated when nothing lies above the head (whether it reaches
		// into pre-confirmed blocks is not fixed by the specification)
		if e.preMode != preBlocks {
			return evBound{class: "none", n: head, vers: onAll}
		}
		return evBound{json: `"latest"`, class: "latest", n: head, vers: onAll}
	case k <= 4:
		return evBound{json: `"latest"`, class: "latest", n: head, vers: onAll}
	case k <= 6:
		i := uint64(t.Draw("to.num", int(head)+1))
		return evBound{json: fmt.Sprintf(`{"block_number":%d}`, i), class: "number", n: i, vers: onAll}
	case k == 7 && e.preMode != preBlocks:
		// a number above the head ends the range at the head (there is nothing above it); with
		// pre-confirmed blocks present the reading of such a number is not fixed: not generated
		i := head + 1 + uint64(t.Draw("to.above", 3))
		if t.Draw("to.huge", 4) == 0 {
			i = 18446744073709551615
		}
		return evBound{json: fmt.Sprintf(`{"block_number":%d}`, i), class: "number_above_head", n: head, vers: onAll}
	case k == 8:
		i := t.Draw("to.hash", int(head)+1)
		return evBound{json: fmt.Sprintf(`{"block_hash":%q}`, fhex(m.Chain[i].B.Hash)), class: "hash", n: uint64(i), vers: onAll}
	case k == 9:
		return e.unknownHash("to")
	case k == 10:
		return e.l1Accepted()
	case k == 11 || k == 12:
		switch e.preMode {
		case preBlocks:
			return evBound{json: `"pre_confirmed"`, class: "pre_confirmed", n: e.tip(), vers: onNew}
		case preEmpty:
			// the tag names the (empty) pre-confirmed block on the head: same events as up to latest
			return evBound{json: `"pre_confirmed"`, class: "pre_confirmed_empty", n: head, vers: onNew}
		}
		return evBound{json: `"pre_confirmed"`, class: "pre_confirmed_absent", n: head, mayNotFound: true, vers: onNew}
	case k == 13:
		// v0.8: the pending block of this node is always empty
		return evBound{json: `"pending"`, class: "pending", n: head, vers: onV8}
	}
	return evBound{json: `"latest"`, class: "latest", n: head, vers: onAll}
}

func (e *evWorld) unknownHash(l string) evBound {
	t := e.c.T
	if rv := e.RevertedOnly(); len(rv) > 0 && t.Draw(l+".rev?", 2) == 0 {
		b := rv[t.Draw(l+".rev", len(rv))]
		e.c.Probe("id_hash_reverted")
		return evBound{json: fmt.Sprintf(`{"block_hash":%q}`, fhex(b.B.Hash)), class: "hash_reverted", unknown: true, vers: onAll}
	}
	h := felt.FromUint64[felt.Felt](t.U64(l+".randhash") | 1)
	return evBound{json: fmt.Sprintf(`{"block_hash":%q}`, fhex(&h)), class: "hash_random", unknown: true, vers: onAll}
}

// l1Accepted: the latest block accepted on L1 that the node holds = min(recorded L1 head, local head)
// (the convention of the other read methods, rpc/v10/helpers.go l1AcceptedBlockNumber; C08).
func (e *evWorld) l1Accepted() evBound {
	m := e.M
	head := m.Head().B.Number
	b := evBound{json: `"l1_accepted"`, vers: onNew}
	switch {
	case m.L1Head == nil:
		b.class, b.unknown = "l1_accepted_unset", true
	case m.L1Head.BlockNumber > head:
		b.class, b.n = "l1_accepted_above_head", head
	default:
		b.class, b.n = "l1_accepted", m.L1Head.BlockNumber
	}
	e.c.Probe("id_" + b.class)
	return b
}

func (e *evWorld) genFrom(to *evBound) evBound {
	t, m := e.c.T, e.M
	head := m.Head().B.Number
	switch k := t.Draw("from.kind", 14); {
	case k <= 3:
		return evBound{class: "none", n: 0, vers: onAll}
	case k <= 6:
		i := uint64(t.Draw("from.num", int(head)+1))
		return evBound{json: fmt.Sprintf(`{"block_number":%d}`, i), class: "number", n: i, vers: onAll}
	case k == 7:
		if e.preMode == preBlocks && to.class == "pre_confirmed" {
			// the number of a pre-confirmed block
			i := head + 1 + uint64(t.Draw("from.pre", len(e.pre)))
			return evBound{json: fmt.Sprintf(`{"block_number":%d}`, i), class: "number_preconfirmed", n: i, vers: onAll}
		}
		i := e.tip() + 1 + uint64(t.Draw("from.above", 3))
		if t.Draw("from.huge", 4) == 0 {
			i = 18446744073709551615
		}
		return evBound{json: fmt.Sprintf(`{"block_number":%d}`, i), class: "number_above_head", n: i, mayNotFound: true, vers: onAll}
	case k == 8:
		i := t.Draw("from.hash", int(head)+1)
		return evBound{json: fmt.Sprintf(`{"block_hash":%q}`, fhex(m.Chain[i].B.Hash)), class: "hash", n: uint64(i), vers: onAll}
	case k == 9:
		return e.unknownHash("from")
	case k == 10:
		return evBound{json: `"latest"`, class: "latest", n: head, vers: onAll}
	case k == 11:
		return e.l1Accepted()
	case k == 12:
		switch e.preMode {
		case preBlocks:
			return evBound{json: `"pre_confirmed"`, class: "pre_confirmed", n: e.tip(), vers: onNew}
		case preEmpty:
			return evBound{json: `"pre_confirmed"`, class: "pre_confirmed_empty", n: head + 1, vers: onNew}
		}
		return evBound{json: `"pre_confirmed"`, class: "pre_confirmed_absent", n: head + 1, mayNotFound: true, vers: onNew}
	case k == 13:
		return evBound{json: `"pending"`, class: "pending", n: head + 1, vers: onV8}
	}
	return evBound{class: "none", n: 0, vers: onAll}
}

// genQuery draws one request. plain: no anomaly (used where a sequence of pages is needed).
func (e *evWorld) genQueryOpt(plain bool) *evQuery {
	t, g := e.c.T, e.D.Gen()
	q := &evQuery{named: t.Draw("params.positional", 4) != 0, upper: t.Draw("hex.upper", 6) == 5}
	for tries := 0; ; tries++ {
		q.to = e.genTo()
		q.from = e.genFrom(&q.to)
		q.vers = q.from.vers & q.to.vers
		if q.vers != 0 {
			break
		}
		if tries > 20 { // the tags of the two ends exclude each other (pending with a new tag)
			q.from = evBound{class: "none", vers: onAll}
			q.vers = q.to.vers
			break
		}
	}
	if t.Draw("range.full", 4) == 0 {
		// the whole chain (and the pre-confirmed blocks when there are some)
		q.from = evBound{class: "none", vers: onAll}
		if e.preMode == preBlocks {
			q.to = evBound{json: `"pre_confirmed"`, class: "pre_confirmed", n: e.tip(), vers: onNew}
		} else {
			q.to = evBound{json: `"latest"`, class: "latest", n: e.M.Head().B.Number, vers: onAll}
		}
		q.vers = q.to.vers
	}
	q.withPre = e.preMode == preBlocks && q.to.class == "pre_confirmed"

	// address: events come from Addrs[0..3]; Addrs[5] never emits
	pickAddr := func() felt.Felt {
		if t.Draw("f.addr.silent", 8) == 0 {
			return g.Addrs[5]
		}
		return g.Addrs[t.Draw("f.addr", 4)]
	}
	switch k := t.Draw("f.addr.form", 8); {
	case k <= 2:
		q.addrForm = "absent"
	case k <= 5:
		q.addrForm, q.addrs = "single", []felt.Felt{pickAddr()}
	default:
		// a list of addresses is v0.10 vocabulary; duplicates are legal
		q.addrForm = "list"
		for i, n := 0, 1+t.Draw("f.addr.n", 3); i < n; i++ {
			q.addrs = append(q.addrs, pickAddr())
		}
		q.vers &= onV10
		if q.vers == 0 {
			q.addrForm, q.addrs, q.vers = "single", q.addrs[:1], q.from.vers&q.to.vers
		}
	}
	// keys: per-position alternatives over the event-key alphabet and one key no event carries
	unused := felt.FromUint64[felt.Felt](0xe)
	if t.Draw("f.keys.absent", 4) == 0 {
		q.keysForm = "absent"
	} else {
		q.keysForm = "given"
		npos := t.Draw("f.npos", 4)
		for i := 0; i < npos; i++ {
			var alts []felt.Felt
			for j := range g.EKeys {
				if t.Draw("f.key", 3) == 0 {
					alts = append(alts, g.EKeys[j])
				}
			}
			if t.Draw("f.key.unused", 6) == 0 {
				alts = append(alts, unused)
			}
			q.keys = append(q.keys, alts)
		}
		// trailing empty positions are trimmed: whether "[[A],[]]" matches an event with a single key
		// is not fixed by the specification, so such filters are not generated
		for len(q.keys) > 0 && len(q.keys[len(q.keys)-1]) == 0 {
			q.keys = q.keys[:len(q.keys)-1]
		}
		// ... except in a small share of the queries, which are judged WITHOUT a model: whatever such a
		// pattern selects, it selects the same for every chunk size and on every API version
		if len(q.keys) > 0 && t.Draw("f.keys.trailing.empty", 8) == 7 {
			for i, n := 0, 1+t.Draw("f.keys.trailing.n", 2); i < n; i++ {
				q.keys = append(q.keys, nil)
			}
			q.noModel = true
		}
	}
	q.chunk = evChunkSizes[t.Draw("chunk", len(evChunkSizes))]

	if q.from.unknown || q.to.unknown {
		q.mustErr = append(q.mustErr, codeBlockNotFound)
		q.anomaly = "unknown_block"
	}
	if plain || t.Draw("anomaly?", 7) != 0 {
		if plain && len(q.mustErr) > 0 {
			// a plain request names existing blocks only
			q.from, q.to = evBound{class: "none", vers: onAll}, evBound{json: `"latest"`, class: "latest", n: e.M.Head().B.Number, vers: onAll}
			q.mustErr, q.anomaly, q.withPre = nil, "", false
			if q.addrForm == "list" {
				q.vers = onV10
			} else {
				q.vers = onAll
			}
		}
		return q
	}
	// one anomaly: limits, malformed members
	over := func(name, val, what string, codes ...int) {
		q.rawOver = map[string]string{name: val}
		q.anomaly = what
		q.mustErr = append(q.mustErr, codes...)
	}
	switch a := t.Draw("anomaly", 12); a {
	case 0, 1:
		// above the documented page-size limit (rpccore.MaxEventChunkSize)
		big := []string{fmt.Sprint(uint64(rpccore.MaxEventChunkSize) + 1), "100000", "1099511627776", "18446744073709551615"}[t.Draw("chunk.big", 4)]
		q.rawChunk, q.anomaly = big, "chunk_size_above_limit"
		q.mustErr = append(q.mustErr, codePageSizeTooBig, codeInvalidParams)
	case 2:
		// chunk_size must be an integer >= 1 and is required
		q.rawChunk = []string{"0", "-1", `"7"`, "1.5", "-"}[t.Draw("chunk.bad", 5)]
		q.anomaly = "chunk_size_invalid"
		q.mustErr = append(q.mustErr, codeInvalidParams, codePageSizeTooBig)
	case 3, 4:
		// more key alternatives than the documented limit (rpccore.MaxEventFilterKeys)
		if q.keysForm != "given" || len(q.keys) == 0 {
			q.keysForm, q.keys = "given", [][]felt.Felt{{g.EKeys[0]}}
		}
		q.bigKeys = rpccore.MaxEventFilterKeys + 1 + t.Draw("keys.over", 40)
		q.anomaly = "too_many_keys"
		q.mustErr = append(q.mustErr, codeTooManyKeys, codeInvalidParams)
	case 5:
		over("address", []string{`"xyz"`, `17`, `"0xzz"`}[t.Draw("addr.bad", 3)], "address_malformed", codeInvalidParams)
	case 6:
		over("keys", []string{`["0xa"]`, `[["zz"]]`, `"0xa"`, `[[17]]`}[t.Draw("keys.bad", 4)], "keys_malformed", codeInvalidParams)
	case 7, 8:
		name := []string{"from_block", "to_block"}[t.Draw("id.bad.end", 2)]
		over(name, []string{`"earliest"`, `{"block_number":-1}`, `{"block_hash":"zz"}`, `{}`, `17`}[t.Draw("id.bad", 5)], "block_id_malformed", codeInvalidParams, codeBlockNotFound)
	default:
		// a continuation token no page ever carried (the format is "<block>-<events>")
		q.anomaly = "garbage_token"
		q.mustErr = append(q.mustErr, codeInvalidToken, codeInvalidParams)
	}
	if q.from.unknown || q.to.unknown {
		// the anomaly's own code names the expectation; BLOCK_NOT_FOUND stays acceptable
		q.mustErr = append(q.mustErr[1:], codeBlockNotFound)
	}
	return q
}

func (e *evWorld) genQuery() *evQuery { return e.genQueryOpt(false) }

var evGarbageTokens = []string{"garbage", "-", "7", "x-1", "1-x", " ", "0x1", "--", "one-two"}

// ---- the model's answer ----------------------------------------------------------------------------------

type evModelEvent struct {
	num    uint64
	hash   *felt.Felt // nil: event of a pre-confirmed block
	tx     *felt.Felt
	ti, ei int
	ev     *core.Event
}

func (q *evQuery) matches(ev *core.Event) bool {
	if len(q.addrs) > 0 {
		ok := false
		for i := range q.addrs {
			if q.addrs[i].Equal(ev.From) {
				ok = true
			}
		}
		if !ok {
			return false
		}
	}
	for i, alts := range q.keys {
		if len(alts) == 0 {
			continue
		}
		if i >= len(ev.Keys) {
			return false
		}
		ok := false
		for j := range alts {
			if alts[j].Equal(&ev.Keys[i]) {
				ok = true
			}
		}
		if !ok {
			return false
		}
	}
	return true
}

// scan: the naive scan of the model's receipts in [from, to], chain order; the pre-confirmed blocks
// take part when the range was asked to reach up to the pre_confirmed tag.
func (e *evWorld) scan(q *evQuery) []evModelEvent {
	var out []evModelEvent
	lo, hi := q.from.n, q.to.n
	add := func(num uint64, hash *felt.Felt, rs []*core.TransactionReceipt) {
		if num < lo || num > hi {
			return
		}
		for ti, r := range rs {
			for ei, ev := range r.Events {
				if q.matches(ev) {
					out = append(out, evModelEvent{num, hash, r.TransactionHash, ti, ei, ev})
				}
			}
		}
	}
	for _, b := range e.M.Chain {
		add(b.B.Number, b.B.Hash, b.B.Receipts)
	}
	if q.withPre {
		for _, b := range e.pre {
			add(b.B.Number, nil, b.B.Receipts)
		}
	}
	return out
}

// render: the EMITTED_EVENT object of one API version (fields the version's specification names).
func (me *evModelEvent) render(version string) J {
	o := J{
		"from_address":     fhex(me.ev.From),
		"keys":             felts(me.ev.Keys),
		"data":             felts(me.ev.Data),
		"transaction_hash": fhex(me.tx),
		"block_number":     num(me.num),
	}
	if me.hash != nil {
		o["block_hash"] = fhex(me.hash)
	}
	if version == "v0_10" {
		o["transaction_index"] = num(uint64(me.ti))
		o["event_index"] = num(uint64(me.ei))
	}
	return o
}
