package rpcworld

import (
	"fmt"
	"os"
	"testing"

	"jsim/sim"
)

// TestDevDump prints raw responses of the three versions (development aid; skipped unless JSIM_DEV=1).
func TestDevDump(t *testing.T) {
	if os.Getenv("JSIM_DEV") != "1" {
		t.Skip("dev only")
	}
	h := func(c *sim.Ctx) {
		w := NewWorld(c)
		defer w.Close()
		w.D.Opts().MaxTxs = 6
		w.D.Opts().MaxEvents = 2
		for i := 0; i < 4; i++ {
			w.Store()
		}
		w.SetL1Head(1)
		head := w.M.Head()
		for _, v := range Versions {
			for _, q := range [][2]string{
				{"starknet_blockNumber", `[]`},
				{"starknet_blockHashAndNumber", `[]`},
				{"starknet_getBlockWithTxHashes", `{"block_id":"latest"}`},
				{"starknet_getBlockWithTxs", `{"block_id":{"block_number":1}}`},
				{"starknet_getBlockWithReceipts", `{"block_id":{"block_number":2}}`},
				{"starknet_getStateUpdate", `{"block_id":{"block_number":2}}`},
				{"starknet_getBlockTransactionCount", `{"block_id":{"block_number":9}}`},
				{"starknet_getBlockWithTxs", `{"block_id":"l1_accepted"}`},
				{"starknet_getTransactionByBlockIdAndIndex", `{"block_id":{"block_number":9},"index":0}`},
				{"starknet_getStorageProof", `{"block_id":"latest","contract_addresses":["0x100","0x5"],"class_hashes":["0x1"],"contracts_storage_keys":[{"contract_address":"0x100","storage_keys":["0x1"]}]}`},
			} {
				r := w.Call(v, q[0], q[1])
				fmt.Printf("%s %s %s\n   -> %s\n", v, q[0], q[1], r.Raw)
			}
			if len(head.B.Transactions) > 0 {
				hx := head.B.Transactions[0].Hash().String()
				for _, m := range []string{"starknet_getTransactionByHash", "starknet_getTransactionReceipt", "starknet_getTransactionStatus"} {
					r := w.Call(v, m, fmt.Sprintf(`{"transaction_hash":%q}`, hx))
					fmt.Printf("%s %s\n   -> %s\n", v, m, r.Raw)
				}
			}
		}
	}
	r := sim.Exec(h, "DEV", "quick", 7, sim.Options{})
	fmt.Println("violation:", r.Violation, "machinery:", r.Machinery)
}

// TestDevRuns executes a number of seeded runs in-process and prints violations (development aid).
func TestDevRuns(t *testing.T) {
	if os.Getenv("JSIM_DEV") != "1" {
		t.Skip("dev only")
	}
	prop := os.Getenv("JSIM_DEVPROP")
	h := map[string]sim.Harness{"C08": C08, "C10": C10}[prop]
	n := 200
	if s := os.Getenv("JSIM_DEVN"); s != "" {
		fmt.Sscan(s, &n)
	}
	keys := map[string]int{}
	first := map[string]string{}
	probes := map[string]int{}
	faults := map[string]int{}
	nontriv := 0
	evals := 0
	for i := 0; i < n; i++ {
		r := sim.Exec(h, prop, "quick", uint64(1000+i), sim.Options{PanicIsViolation: true})
		if r.Machinery != "" {
			fmt.Printf("seed %d MACHINERY: %s\n", r.Seed, r.Machinery)
			continue
		}
		if r.Nontrivial {
			nontriv++
		}
		evals += r.Evals
		for k, v := range r.Probes {
			probes[k] += v
		}
		for k, v := range r.Faults {
			faults[k] += v
		}
		if r.Violation != nil {
			keys[r.Violation.Key]++
			if _, ok := first[r.Violation.Key]; !ok {
				first[r.Violation.Key] = fmt.Sprintf("seed %d: %s", r.Seed, r.Violation.Detail)
			}
		}
	}
	fmt.Printf("runs=%d nontrivial=%d evals=%d\nprobes=%v\nfaults=%v\n", n, nontriv, evals, probes, faults)
	for k, v := range keys {
		d := first[k]
		if len(d) > 1200 {
			d = d[:1200]
		}
		fmt.Printf("VIOLATION x%d %s\n    %s\n", v, k, d)
	}
}

// TestDevSeed prints the trace of one seed (development aid).
func TestDevSeed(t *testing.T) {
	if os.Getenv("JSIM_DEV") != "1" {
		t.Skip("dev only")
	}
	prop := os.Getenv("JSIM_DEVPROP")
	h := map[string]sim.Harness{"C08": C08, "C10": C10}[prop]
	var seed uint64
	fmt.Sscan(os.Getenv("JSIM_DEVSEED"), &seed)
	r := sim.Exec(h, prop, "quick", seed, sim.Options{PanicIsViolation: true})
	for _, e := range r.Events {
		if len(e) > 600 {
			e = e[:600]
		}
		fmt.Println("  ", e)
	}
	if r.Violation != nil {
		fmt.Println("VIOLATION", r.Violation.Key, r.Violation.Detail)
	}
	fmt.Println("machinery:", r.Machinery)
}
