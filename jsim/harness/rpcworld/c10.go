package rpcworld

import "jsim/sim"

// C10: Merkle proofs verify against the state root and cannot be forged by tampering.
//
//	(i)  trie level: core/trie (Pedersen, Poseidon) on an indexed batch and core/trie2 over rawdb, with
//	     commit and reopen; Prove / VerifyProof / GetRangeProof / VerifyRangeProof; forged proofs
//	(ii) RPC level: starknet_getStorageProof of the three API versions on a node after
//	     store / revert / restart histories, checked by an independent verifier
func C10(c *sim.Ctx) {
	k := NewCollector(c)
	if c.T.Draw("c10.class", 10) <= 5 {
		trieProofRun(c, k)
	} else {
		rpcProofRun(c, k)
	}
	k.Report()
}
