package rpcworld

// Reference Merkle-Patricia proof verifier, written from the protocol description only:
//
//	binary node   hash = H(left, right)           the next key bit selects left (0) / right (1)
//	edge node     hash = H(child, path) + length  the next `length` key bits must equal `path`
//	leaf          the value itself, at depth `height` (251)
//	empty tree    root 0: every key is absent
//
// A proof is a set of nodes. The verifier indexes the nodes by the hash IT computes for each of them
// (it never trusts a claimed hash), starts at the root and consumes the key from its most significant
// bit. Reaching depth `height` yields the value; an edge whose path differs from the key bits proves
// absence (value 0); a missing node or a malformed edge is an error. It shares no code with
// core/trie or core/trie2.

import (
	"errors"
	"fmt"
	"math/big"

	"github.com/NethermindEth/juno/core/felt"

	"jsim/refmpt"
)

// PNode is a proof node in neutral form.
type PNode struct {
	Binary      bool
	Left, Right felt.Felt // binary
	Child       felt.Felt // edge
	Path        felt.Felt // edge: the path bits as an integer
	Len         uint8     // edge: number of path bits
	// how the implementation represented the referenced children (trie2: value node vs hash node);
	// kept so that a rebuilt node has the same in-memory shape as the original
	LeftVal, RightVal, ChildVal bool
}

func (n *PNode) Hash(h refmpt.HashFn) felt.Felt {
	if n.Binary {
		return h(&n.Left, &n.Right)
	}
	hh := h(&n.Child, &n.Path)
	var l, out felt.Felt
	l.SetUint64(uint64(n.Len))
	out.Add(&hh, &l)
	return out
}

func (n *PNode) String() string {
	if n.Binary {
		return fmt.Sprintf("binary{left=%s right=%s}", short(&n.Left), short(&n.Right))
	}
	return fmt.Sprintf("edge{path=%s len=%d child=%s}", short(&n.Path), n.Len, short(&n.Child))
}

// PEntry is one element of a proof as transported: the hash it is filed under and the node.
type PEntry struct {
	Key felt.Felt
	N   PNode
}

func cloneEntries(es []PEntry) []PEntry { return append([]PEntry(nil), es...) }

func feltBig(f *felt.Felt) *big.Int {
	var b big.Int
	f.BigInt(&b)
	return &b
}

// RefResult describes what the reference verifier established.
type RefResult struct {
	Value felt.Felt
	// for absent keys: where the key left the tree
	Absent    bool
	DivDepth  int // depth at which the diverging edge starts
	DivOffset int // offset of the first differing bit inside that edge
	EmptyTree bool
}

var (
	errRefMissing   = errors.New("reference verifier: proof node missing")
	errRefMalformed = errors.New("reference verifier: malformed edge node")
)

// RefVerify walks the proof from root for key (a `height`-bit integer).
func RefVerify(root, key *felt.Felt, entries []PEntry, height int, h refmpt.HashFn) (RefResult, error) {
	if root.IsZero() {
		return RefResult{Absent: true, EmptyTree: true}, nil
	}
	idx := make(map[felt.Felt]*PNode, len(entries))
	for i := range entries {
		idx[entries[i].N.Hash(h)] = &entries[i].N
	}
	kb := feltBig(key)
	if kb.BitLen() > height {
		return RefResult{}, fmt.Errorf("reference verifier: key longer than %d bits", height)
	}
	cur := *root
	remaining := height
	for remaining > 0 {
		n, ok := idx[cur]
		if !ok {
			return RefResult{}, errRefMissing
		}
		if n.Binary {
			if kb.Bit(remaining-1) == 0 {
				cur = n.Left
			} else {
				cur = n.Right
			}
			remaining--
			continue
		}
		l := int(n.Len)
		pb := feltBig(&n.Path)
		if l == 0 || l > remaining || pb.BitLen() > l {
			return RefResult{}, errRefMalformed
		}
		for i := 0; i < l; i++ {
			if kb.Bit(remaining-1-i) != pb.Bit(l-1-i) {
				return RefResult{Absent: true, DivDepth: height - remaining, DivOffset: i}, nil
			}
		}
		cur = n.Child
		remaining -= l
	}
	return RefResult{Value: cur, Absent: cur.IsZero()}, nil
}

// absentShape names where an absent key diverges (probe names).
func absentShape(r RefResult, height int) string {
	switch {
	case r.EmptyTree:
		return "empty_trie"
	case r.DivDepth+r.DivOffset == height-1:
		return "at_leaf"
	case r.DivDepth == 0:
		return "at_root"
	case r.DivOffset == 0:
		return "at_binary_node"
	}
	return "inside_edge"
}

// modelRange answers what a sound range proof may claim: the model's entries in [first, last] (last nil: unbounded).
func modelRange(model map[felt.Felt]felt.Felt, first, last *felt.Felt) (keys, vals []felt.Felt) {
	for _, k := range sortedModelKeys(model) {
		if feltBig(&k).Cmp(feltBig(first)) >= 0 && (last == nil || feltBig(&k).Cmp(feltBig(last)) <= 0) {
			keys = append(keys, k)
			vals = append(vals, model[k])
		}
	}
	return
}
