package rpcworld

import (
	"fmt"
	"regexp"
	"sort"
	"strings"
)

// evSeq is one paging sequence: first page without a token, then following the returned tokens.
type evSeq struct {
	events    []any
	pages     int
	err       *Resp  // the sequence ended with an error answer
	bad       string // the sequence ended with a result that is not an EVENTS_CHUNK (signature)
	badDetail string
	lastEmpty bool // the last page carried no event
	firstTok  string
}

func (e *evWorld) versionsOf(q *evQuery) []string {
	var vs []string
	for _, v := range Versions {
		if q.vers&verBit[v] != 0 {
			vs = append(vs, v)
		}
	}
	return vs
}

// page sends one request and splits the answer into events and token.
func (e *evWorld) page(v string, q *evQuery, chunk uint64, token string) (r *Resp, events []any, next string, bad, detail string) {
	e.requests++
	r = e.Call(v, "starknet_getEvents", q.params(chunk, token))
	if r.IsErr() {
		return r, nil, "", "", ""
	}
	obj, ok := r.Result.(map[string]any)
	if !ok {
		return r, nil, "", "result_not_an_object", "result is not an object: " + r.Brief()
	}
	evs, ok := obj["events"].([]any)
	if !ok {
		return r, nil, "", "events_not_an_array", "result.events is not an array: " + r.Brief()
	}
	if tk, has := obj["continuation_token"]; has {
		s, ok := tk.(string)
		if !ok {
			return r, evs, "", "token_not_a_string", "result.continuation_token is not a string: " + r.Brief()
		}
		next = s
	}
	return r, evs, next, "", ""
}

// follow runs a whole paging sequence. maxPages bounds it (a correct server needs at most one page
// per event plus one per scanned block).
func (e *evWorld) follow(v string, q *evQuery, chunk uint64, maxPages int) *evSeq {
	s := &evSeq{}
	token := ""
	for {
		s.pages++
		r, evs, next, bad, detail := e.page(v, q, chunk, token)
		if r.IsErr() {
			s.err = r
			return s
		}
		if bad != "" {
			s.bad, s.badDetail = bad, detail
			return s
		}
		if uint64(len(evs)) > chunk {
			s.bad, s.badDetail = "chunk_exceeded", fmt.Sprintf("page %d carries %d events, chunk_size is %d", s.pages, len(evs), chunk)
			return s
		}
		s.events = append(s.events, evs...)
		s.lastEmpty = len(evs) == 0
		if s.pages == 1 {
			s.firstTok = next
		}
		if next == "" {
			return s
		}
		if s.pages >= maxPages {
			s.bad, s.badDetail = "paging_never_ends", fmt.Sprintf("still a continuation token (%q) after %d pages (%d events so far)", next, s.pages, len(s.events))
			return s
		}
		token = next
	}
}

var evFieldRe = regexp.MustCompile(`^events\[\d+\]\.([a-z_]+)`)

// identity of an event as far as every version renders it (multiset comparison omitted / extra)
func evIdentity(o any) string {
	m, _ := o.(map[string]any)
	norm := func(v any) string {
		if l, ok := v.([]any); ok {
			xs := make([]string, len(l))
			for i := range l {
				xs[i] = fmt.Sprint(normScalar(l[i]))
			}
			return "[" + strings.Join(xs, ",") + "]"
		}
		return fmt.Sprint(normScalar(v))
	}
	return fmt.Sprintf("b=%s tx=%s from=%s keys=%s data=%s", norm(m["block_number"]), norm(m["transaction_hash"]), norm(m["from_address"]), norm(m["keys"]), norm(m["data"]))
}

// compare judges a complete sequence against the naive scan; sig is a short stable signature.
func (e *evWorld) compare(v string, want []evModelEvent, got []any) (sig, detail string) {
	wantObjs := make([]any, len(want))
	for i := range want {
		wantObjs[i] = want[i].render(v)
	}
	// pre-confirmed events carry no block hash (the block has none)
	for i := range want {
		if want[i].hash == nil && i < len(got) {
			if m, ok := got[i].(map[string]any); ok {
				if _, has := m["block_hash"]; has {
					if d := subsetDiff(fmt.Sprintf("events[%d]", i), wantObjs[i], got[i]); d == "" {
						return "field_block_hash_on_preconfirmed", fmt.Sprintf("events[%d] of pre-confirmed block %d carries block_hash %v", i, want[i].num, m["block_hash"])
					}
				}
			}
		}
	}
	if d := subsetDiff("events", wantObjs, got); d != "" {
		// classify: multiset difference first (omitted / extra), then order, then a field
		cnt := map[string]int{}
		for _, w := range wantObjs {
			cnt[evIdentity(map[string]any(w.(J)))]++
		}
		missing, extra := 0, 0
		for _, g := range got {
			id := evIdentity(g)
			if cnt[id] > 0 {
				cnt[id]--
			} else {
				extra++
			}
		}
		for _, n := range cnt {
			missing += n
		}
		switch {
		case missing > 0 && extra == 0:
			sig = "omitted"
		case extra > 0 && missing == 0:
			sig = "extra"
		case missing > 0 && extra > 0:
			sig = "mismatch"
			if len(got) == len(want) {
				if mm := evFieldRe.FindStringSubmatch(d); mm != nil {
					sig = "field_" + mm[1]
				}
			}
		default:
			sig = "order"
			if mm := evFieldRe.FindStringSubmatch(d); mm != nil && len(got) == len(want) {
				// same multiset of (block, tx, from, keys, data): a position field or the order differs
				sig = "order_or_field_" + mm[1]
			}
		}
		return sig, fmt.Sprintf("want %d events, got %d (%d missing, %d unexpected): %s", len(want), len(got), missing, extra, d)
	}
	return "", ""
}

func codeIn(code int, set []int) bool {
	for _, c := range set {
		if c == code {
			return true
		}
	}
	return false
}

func whoOf(vs, all []string) string {
	if len(vs) == len(all) && len(all) > 1 {
		return "all"
	}
	return strings.Join(vs, "+")
}

// check sends one generated request to every API version that knows its vocabulary and judges the
// answers: error requests by their code, the others by the complete paging sequence for the drawn
// chunk size and for chunk size 1000.
func (e *evWorld) check(q *evQuery) {
	t := e.c.T
	versions := e.versionsOf(q)
	token := ""
	if q.anomaly == "garbage_token" {
		token = evGarbageTokens[t.Draw("token.garbage", len(evGarbageTokens))]
	}
	tokNote := ""
	if token != "" {
		tokNote = fmt.Sprintf(", continuation_token %q", token)
	}
	want := e.scan(q)
	e.c.Logf("getEvents %s%s on %s: anomaly=%q model: range %s [%d,%d] -> %d events", q.describe(), tokNote, strings.Join(versions, "+"), q.anomaly, q.rangeClass(), q.from.n, q.to.n, len(want))
	type outcome struct{ sig, detail string }
	bad := map[string][]outcome{}
	note := func(v, sig, format string, a ...any) {
		bad[v] = append(bad[v], outcome{sig, fmt.Sprintf("%s starknet_getEvents %s [range %s, scan limit %d, pre-confirmed %s%s]: ", v, q.describe(), q.rangeClass(), e.limit, e.preMode, tokNote) + fmt.Sprintf(format, a...)})
	}
	if len(q.mustErr) > 0 {
		// ---- the request cannot be served: an error of the specification's list, never a page
		for _, v := range versions {
			r, evs, _, _, _ := e.page(v, q, q.chunk, token)
			switch {
			case !r.IsErr():
				note(v, "want_"+evCodeStr(q.mustErr[0])+"_got_result", "expected error %s, got a page of %d events: %s", evCodeStr(q.mustErr[0]), len(evs), r.Brief())
			case !codeIn(r.ErrCode, q.mustErr):
				note(v, "want_"+evCodeStr(q.mustErr[0])+"_got_"+evCodeStr(r.ErrCode), "expected error %s, got %s", evCodeStr(q.mustErr[0]), r.Brief())
			}
		}
		e.judged++
		if len(bad) == 0 {
			e.c.Probe("err_" + q.anomaly)
		}
	} else {
		chunks := []uint64{q.chunk}
		if q.chunk != 1000 {
			chunks = append(chunks, 1000)
		}
		nblocks := len(e.M.Chain) + len(e.pre)
		maxPages := 2*(len(want)+nblocks) + 8
		nonFound := q.from.mayNotFound || q.to.mayNotFound
		var ref []any // noModel queries: the first complete answer is what every other answer must equal
		refBy := ""
		for _, v := range versions {
			for _, ch := range chunks {
				if q.noModel {
					maxPages = 4000
				}
				s := e.follow(v, q, ch, maxPages)
				e.judged++
				if q.noModel && s.err == nil && s.bad == "" {
					// compared on the members all versions render (v0.10 adds the two index members)
					strip := func(evs []any) string {
						out := make([]string, len(evs))
						for i, x := range evs {
							m, _ := x.(map[string]any)
							out[i] = fmt.Sprintf("%v|%v|%v|%v|%v|%v", m["block_number"], m["block_hash"], m["transaction_hash"], m["from_address"], m["keys"], m["data"])
						}
						return strings.Join(out, "\n")
					}
					if ref == nil {
						ref, refBy = s.events, fmt.Sprintf("%s chunk_size %d", v, ch)
						if ref == nil {
							ref = []any{}
						}
						e.c.Probe("trailing_empty_key_positions_compared_across_versions_and_chunks")
					} else if strip(ref) != strip(s.events) {
						note(v, "unspecified_pattern_answers_differ", "chunk_size %d: %d events, but %s returned %d for the same request (a key pattern with trailing empty positions: whatever it selects must not depend on the chunk size or the API version)", ch, len(s.events), refBy, len(ref))
					}
					continue
				}
				switch {
				case s.err != nil && nonFound && s.err.ErrCode == codeBlockNotFound && s.pages == 1:
					// an id that names no block of the node may be refused
					e.c.Probe("unresolvable_id_refused")
				case s.err != nil:
					note(v, fmt.Sprintf("want_result_got_%s", evCodeStr(s.err.ErrCode)), "page %d (chunk_size %d): expected a page, got %s", s.pages, ch, s.err.Brief())
				case s.bad != "":
					note(v, s.bad, "chunk_size %d: %s", ch, s.badDetail)
				default:
					if sig, detail := e.compare(v, want, s.events); sig != "" {
						note(v, sig, "chunk_size %d, %d pages: %s", ch, s.pages, detail)
					}
					if s.pages > 1 {
						e.c.Probe("paged_sequence")
						if s.lastEmpty {
							// a token was handed out although nothing followed: legal (scan limit), counted
							e.c.Probe("token_then_empty_last_page")
						}
					}
				}
			}
		}
		if len(want) > 0 {
			e.nonempty++
			e.c.Probe("event_query_nonempty")
			if q.withPre && want[len(want)-1].hash == nil {
				e.c.Probe("preconfirmed_event_matched")
			}
		}
		if q.addrForm == "list" {
			e.c.Probe("address_list")
		}
		if q.to.class == "pending" || q.from.class == "pending" {
			e.c.Probe("id_pending_v0_8")
		}
		if strings.HasPrefix(q.to.class, "pre_confirmed") || strings.HasPrefix(q.from.class, "pre_confirmed") {
			e.c.Probe("id_pre_confirmed")
		}
	}
	if len(bad) == 0 {
		return
	}
	// group the deviating versions by what they did
	bySig := map[string][]string{}
	first := map[string]string{}
	for _, v := range versions {
		seen := map[string]bool{}
		for _, o := range bad[v] {
			if seen[o.sig] {
				continue
			}
			seen[o.sig] = true
			bySig[o.sig] = append(bySig[o.sig], v)
			if _, ok := first[o.sig]; !ok {
				first[o.sig] = o.detail
			}
		}
	}
	sigs := make([]string, 0, len(bySig))
	for s := range bySig {
		sigs = append(sigs, s)
	}
	sort.Strings(sigs)
	// scenario of the key: the anomaly, or the special block ids of the range (numbers, existing
	// hashes, latest and absent ends are all "plain": keys stay few when one defect shows everywhere)
	scen := q.anomaly
	if scen == "" {
		plain := map[string]bool{"none": true, "number": true, "latest": true, "hash": true}
		var sp []string
		if !plain[q.from.class] {
			sp = append(sp, "from="+q.from.class)
		}
		if !plain[q.to.class] {
			sp = append(sp, "to="+q.to.class)
		}
		scen = strings.Join(sp, ",")
		if scen == "" {
			scen = "plain_range"
		}
	}
	class := "getEvents"
	if q.anomaly == "" && q.from.class == "l1_accepted_above_head" {
		// own class: from_block = l1_accepted while the recorded L1 head is ahead of the local chain
		class = "getEvents_l1_ahead"
	}
	for _, s := range sigs {
		if class == "getEvents_l1_ahead" {
			e.k.Add(class, s+"/from=l1_accepted_above_head", "%s", first[s])
			continue
		}
		if strings.HasPrefix(s, "field_") || strings.HasPrefix(s, "order_or_field_") {
			// a rendering difference does not depend on the range
			e.k.Add(class, fmt.Sprintf("%s@%s", s, whoOf(bySig[s], versions)), "%s", first[s])
			continue
		}
		e.k.Add(class, fmt.Sprintf("%s/%s@%s", s, scen, whoOf(bySig[s], versions)), "%s", first[s])
	}
}

// tokenReuse: a token obtained from one query (or a well-formed one no query returned) is sent with
// another filter. Where such a request resumes is not fixed (juno resumes at the token's block,
// whatever from_block says); it must be answered (no crash, well-formed), and a page, if one comes,
// holds at most chunk_size events, every one of them an event of the chain that the second filter's
// address and keys select.
func (e *evWorld) tokenReuse() {
	t := e.c.T
	qa := e.genQueryOpt(true)
	va := e.versionsOf(qa)
	v := va[t.Draw("reuse.version", len(va))]
	_, _, tok, _, _ := e.page(v, qa, 1, "")
	if tok == "" {
		switch t.Draw("reuse.forged", 3) {
		case 0:
			return
		case 1:
			tok = fmt.Sprintf("%d-%d", t.Draw("reuse.block", len(e.M.Chain)+3), t.Draw("reuse.skip", 12))
		default:
			tok = []string{"18446744073709551615-18446744073709551615", "0-18446744073709551615", "1-2-3", "99999999999-0"}[t.Draw("reuse.wild", 4)]
		}
	}
	qb := e.genQueryOpt(true)
	vb := e.versionsOf(qb)
	v2 := vb[t.Draw("reuse.version2", len(vb))]
	chunk := evChunkSizes[t.Draw("reuse.chunk", 5)]
	e.c.Logf("token %q reused on %s with %s", tok, v2, qb.describe())
	r, evs, _, bad, detail := e.page(v2, qb, chunk, tok)
	e.c.Probe("token_reused_with_other_filter")
	if r.IsErr() {
		return
	}
	where := fmt.Sprintf("%s starknet_getEvents %s with a continuation token of another query (%q): ", v2, qb.describe(), tok)
	if bad != "" {
		e.k.Add("getEvents", bad+"/reused_token@"+v2, "%s%s", where, detail)
		return
	}
	if uint64(len(evs)) > chunk {
		e.k.Add("getEvents", "chunk_exceeded/reused_token@"+v2, "%spage of %d events, chunk_size %d", where, len(evs), chunk)
		return
	}
	// every event of the chain (and of the pre-confirmed blocks) that address and keys select
	all := *qb
	all.from, all.to, all.withPre = evBound{n: 0}, evBound{n: e.tip()}, true
	sel := map[string]bool{}
	for _, me := range e.scan(&all) {
		sel[evIdentity(map[string]any(me.render(v2)))] = true
	}
	for i, g := range evs {
		if !sel[evIdentity(g)] {
			e.k.Add("getEvents", "not_selected/reused_token@"+v2, "%sevents[%d] is not an event that address and keys of the filter select: %s", where, i, brief(g))
			return
		}
	}
}

// straddle: a paging sequence with a reorg (or new blocks) between two of its pages. "The canonical
// chain" of such a sequence is not defined, so its pages are NOT judged; the requests must be
// answered, and every later fresh sequence is judged exactly as always.
func (e *evWorld) straddle() {
	t := e.c.T
	if len(e.M.Chain) < 2 {
		return
	}
	e.preMode, e.pre = preAbsent, nil
	q := e.genQueryOpt(true)
	q.from, q.to = evBound{class: "none", vers: onAll}, evBound{json: `"latest"`, class: "latest", n: e.M.Head().B.Number, vers: onAll}
	q.withPre = false
	vs := e.versionsOf(q)
	v := vs[t.Draw("straddle.version", len(vs))]
	chunk := uint64(1 + t.Draw("straddle.chunk", 2))
	e.c.Logf("paging sequence across a reorg on %s: %s", v, q.describe())
	_, _, tok, _, _ := e.page(v, q, chunk, "")
	if tok == "" {
		return
	}
	if t.Draw("straddle.op", 3) == 0 {
		e.Store()
	} else {
		e.reorg(1 + t.Draw("reorg.depth", 4))
		for i, n := 0, t.Draw("straddle.restore", 3); i < n; i++ {
			e.Store()
		}
	}
	if len(e.M.Chain) == 0 {
		return
	}
	for i := 0; i < 40 && tok != ""; i++ {
		var r *Resp
		r, _, tok, _, _ = e.page(v, q, chunk, tok)
		if r.IsErr() {
			break
		}
	}
	e.c.Probe("paging_straddles_reorg")
}
