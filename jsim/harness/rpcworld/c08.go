package rpcworld

import (
	"encoding/json"
	"fmt"
	"sort"
	"strings"

	"github.com/NethermindEth/juno/core"
	"github.com/NethermindEth/juno/core/felt"

	"jsim/chaingen"
	"jsim/refstate"
	"jsim/sim"
)

// JSON-RPC error codes of the Starknet specification (cross-checked against rpc/rpccore/rpccore.go).
const (
	codeContractNotFound = 20
	codeBlockNotFound    = 24
	codeInvalidTxnIndex  = 27
	codeClassNotFound    = 28
	codeTxnNotFound      = 29
	codeNoBlocks         = 32
)

var codeName = map[int]string{
	codeContractNotFound: "CONTRACT_NOT_FOUND", codeBlockNotFound: "BLOCK_NOT_FOUND", codeInvalidTxnIndex: "INVALID_TXN_INDEX",
	codeClassNotFound: "CLASS_HASH_NOT_FOUND", codeTxnNotFound: "TXN_HASH_NOT_FOUND", codeNoBlocks: "NO_BLOCKS",
}

func codeStr(c int) string {
	if n, ok := codeName[c]; ok {
		return n
	}
	return fmt.Sprint(c)
}

// blockID is one generated block identifier with its resolution in the MODEL.
type blockID struct {
	json    string
	kind    string          // fine kind (probe)
	class   string          // coarse kind (violation key)
	block   *chaingen.Block // the model's block, nil: the model chain has no such block
	newOnly bool            // tag that exists from v0.9 on
}

type param struct{ name, json string }

// expectation of one request, derived from the model only.
type expectation struct {
	errCodes []int // non-empty: the answer must be an error with one of these codes
	want     any   // otherwise: projection the result must contain
	prep     func(got any)
	// loose: the contract of the answer is not fixed by the specification for this input (system
	// contracts 0x1/0x2); only "a returned value equals the model's" / "an error is one of errCodes"
	loose    bool
	scenario string
}

type querier struct {
	w        *World
	k        *Collector
	c        *sim.Ctx
	requests int
	rounds   int
}

func jstr(s string) string { b, _ := json.Marshal(s); return string(b) }

func (q *querier) genBlockID() blockID {
	t, m := q.c.T, q.w.M
	n := len(m.Chain)
	switch kind := t.Draw("id.kind", 10); {
	case kind <= 1:
		return blockID{json: `"latest"`, kind: "latest", class: "latest", block: m.Head()}
	case kind == 2 && n > 0:
		i := t.Draw("id.num", n)
		return blockID{json: fmt.Sprintf(`{"block_number":%d}`, i), kind: "number_existing", class: "number_existing", block: m.Chain[i]}
	case kind == 3:
		return blockID{json: fmt.Sprintf(`{"block_number":%d}`, n), kind: "number_head_plus_1", class: "number_absent"}
	case kind == 4:
		huge := []string{"18446744073709551615", "1000000000000", "4294967296"}[t.Draw("id.huge", 3)]
		return blockID{json: fmt.Sprintf(`{"block_number":%s}`, huge), kind: "number_huge", class: "number_absent"}
	case kind == 5 && n > 0:
		i := t.Draw("id.hash", n)
		return blockID{json: fmt.Sprintf(`{"block_hash":%q}`, fhex(m.Chain[i].B.Hash)), kind: "hash_existing", class: "hash_existing", block: m.Chain[i]}
	case kind == 6:
		if rv := q.w.RevertedOnly(); len(rv) > 0 {
			b := rv[t.Draw("id.rev", len(rv))]
			return blockID{json: fmt.Sprintf(`{"block_hash":%q}`, fhex(b.B.Hash)), kind: "hash_reverted", class: "hash_absent"}
		}
		fallthrough
	case kind == 7:
		h := felt.FromUint64[felt.Felt](t.U64("id.randhash") | 1)
		return blockID{json: fmt.Sprintf(`{"block_hash":%q}`, fhex(&h)), kind: "hash_random", class: "hash_absent"}
	case kind >= 8:
		id := blockID{json: `"l1_accepted"`, class: "l1_accepted", newOnly: true}
		switch {
		case m.L1Head == nil:
			id.kind = "l1_accepted_unset"
		case n == 0:
			id.kind = "l1_accepted_empty_chain"
		case m.L1Head.BlockNumber >= uint64(n):
			id.kind, id.block = "l1_accepted_above_head", m.Head()
		case m.L1Head.BlockNumber == uint64(n-1):
			id.kind, id.block = "l1_accepted_at_head", m.Head()
		default:
			id.kind, id.block = "l1_accepted_below_head", m.Chain[m.L1Head.BlockNumber]
		}
		return id
	}
	return blockID{json: `"latest"`, kind: "latest", class: "latest", block: m.Head()}
}

// send issues the request on every version that knows the block id kind and judges the answers.
func (q *querier) send(method string, id *blockID, ps []param, ex expectation) {
	t := q.c.T
	var params string
	if t.Draw("params.positional", 4) == 0 {
		parts := make([]string, len(ps))
		for i, p := range ps {
			parts[i] = p.json
		}
		params = "[" + strings.Join(parts, ",") + "]"
	} else {
		parts := make([]string, len(ps))
		for i, p := range ps {
			parts[i] = jstr(p.name) + ":" + p.json
		}
		params = "{" + strings.Join(parts, ",") + "}"
	}
	idClass := "none"
	if id != nil {
		idClass = id.class
		q.c.Probe("id_" + id.kind)
	}
	q.c.Logf("query %s %s", method, params)
	type outcome struct{ sig, detail string }
	bad := map[string]outcome{}
	var versions []string
	for _, v := range Versions {
		if id != nil && id.newOnly && v == "v0_8" {
			continue
		}
		versions = append(versions, v)
		q.requests++
		r := q.w.Call(v, "starknet_"+method, params)
		if sig, detail := q.judge(r, ex); sig != "" {
			bad[v] = outcome{sig, fmt.Sprintf("%s starknet_%s %s [block id %s, %s]: %s", v, method, params, idClass, ex.scenario, detail)}
		}
	}
	if len(bad) == 0 {
		if len(ex.errCodes) > 0 && !ex.loose {
			q.c.Probe("err_" + codeStr(ex.errCodes[0]))
		}
		return
	}
	// group the deviating versions by what they did
	bySig := map[string][]string{}
	for _, v := range versions {
		if o, ok := bad[v]; ok {
			bySig[o.sig] = append(bySig[o.sig], v)
		}
	}
	sigs := make([]string, 0, len(bySig))
	for s := range bySig {
		sigs = append(sigs, s)
	}
	sort.Strings(sigs)
	for _, s := range sigs {
		vs := bySig[s]
		who := strings.Join(vs, "+")
		if len(vs) == len(versions) {
			who = "all"
		}
		q.k.Add(method, fmt.Sprintf("%s/%s/%s@%s", idClass, ex.scenario, s, who), "%s", bad[vs[0]].detail)
	}
}

// judge compares one answer with the expectation; sig is a short stable signature of the deviation.
func (q *querier) judge(r *Resp, ex expectation) (sig, detail string) {
	if r.IsErr() {
		for _, c := range ex.errCodes {
			if c == r.ErrCode {
				return "", ""
			}
		}
		if len(ex.errCodes) > 0 && !ex.loose {
			return fmt.Sprintf("want_%s_got_%s", codeStr(ex.errCodes[0]), codeStr(r.ErrCode)),
				fmt.Sprintf("expected error %s, got %s", codeStr(ex.errCodes[0]), r.Brief())
		}
		return "want_result_got_" + codeStr(r.ErrCode), fmt.Sprintf("expected a result, got %s", r.Brief())
	}
	if len(ex.errCodes) > 0 && !ex.loose {
		return "want_" + codeStr(ex.errCodes[0]) + "_got_result", fmt.Sprintf("expected error %s, got result %s", codeStr(ex.errCodes[0]), r.Brief())
	}
	if ex.prep != nil {
		ex.prep(r.Result)
	}
	if d := subsetDiff("result", ex.want, r.Result); d != "" {
		return "result_differs", d
	}
	return "", ""
}

func idParam(id *blockID) param { return param{"block_id", id.json} }

func notFoundOr(b *chaingen.Block, scenario string, f func() expectation) expectation {
	if b == nil {
		return expectation{errCodes: []int{codeBlockNotFound}, scenario: "block_absent"}
	}
	ex := f()
	if ex.scenario == "" {
		ex.scenario = scenario
	}
	return ex
}

// ---- the query round ----------------------------------------------------------------------------------

func (q *querier) round() {
	t, m := q.c.T, q.w.M
	q.rounds++
	q.c.Logf("query round %d: chain length %d, L1 head %s", q.rounds, len(m.Chain), l1str(m.L1Head))
	pick := func(label string) bool { return t.Draw("q."+label, 3) != 0 }

	if pick("blockNumber") {
		ex := expectation{scenario: "head"}
		if h := m.Head(); h != nil {
			ex.want = num(h.B.Number)
		} else {
			ex.errCodes, ex.scenario = []int{codeNoBlocks}, "empty_chain"
		}
		q.send("blockNumber", nil, nil, ex)
	}
	if pick("blockHashAndNumber") {
		ex := expectation{scenario: "head"}
		if h := m.Head(); h != nil {
			ex.want = J{"block_hash": fhex(h.B.Hash), "block_number": num(h.B.Number)}
		} else {
			ex.errCodes, ex.scenario = []int{codeNoBlocks}, "empty_chain"
		}
		q.send("blockHashAndNumber", nil, nil, ex)
	}
	for _, meth := range []string{"getBlockWithTxHashes", "getBlockWithTxs", "getBlockWithReceipts", "getBlockTransactionCount", "getStateUpdate"} {
		if !pick(meth) {
			continue
		}
		id := q.genBlockID()
		ex := notFoundOr(id.block, "block_present", func() expectation {
			switch meth {
			case "getBlockWithTxHashes":
				return expectation{want: renderBlockWithTxHashes(m, id.block)}
			case "getBlockWithTxs":
				return expectation{want: renderBlockWithTxs(m, id.block)}
			case "getBlockWithReceipts":
				return expectation{want: renderBlockWithReceipts(m, id.block)}
			case "getBlockTransactionCount":
				return expectation{want: num(uint64(len(id.block.B.Transactions)))}
			default:
				want := renderStateUpdate(id.block)
				sortStateUpdate(want)
				return expectation{want: want, prep: sortStateUpdate}
			}
		})
		q.send(meth, &id, []param{idParam(&id)}, ex)
	}
	if pick("getTransactionByBlockIdAndIndex") {
		id := q.genBlockID()
		n := 0
		if id.block != nil {
			n = len(id.block.B.Transactions)
		}
		var idx int
		switch k := t.Draw("idx.kind", 4); {
		case k <= 1 && n > 0:
			idx = t.Draw("idx", n)
		case k == 2:
			idx = n
		default:
			idx = n + 1 + t.Draw("idx.far", 5)
		}
		ex := notFoundOr(id.block, "", func() expectation {
			if idx >= n {
				return expectation{errCodes: []int{codeInvalidTxnIndex}, scenario: "index_out_of_range"}
			}
			return expectation{want: renderTx(id.block.B.Transactions[idx], true), scenario: "index_valid"}
		})
		q.send("getTransactionByBlockIdAndIndex", &id, []param{idParam(&id), {"index", fmt.Sprint(idx)}}, ex)
	}
	for _, meth := range []string{"getTransactionByHash", "getTransactionReceipt", "getTransactionStatus"} {
		if !pick(meth) {
			continue
		}
		hash, b, i, scen := q.genTxHash()
		ex := expectation{scenario: scen}
		if b == nil {
			ex.errCodes = []int{codeTxnNotFound}
		} else {
			switch meth {
			case "getTransactionByHash":
				ex.want = renderTx(b.B.Transactions[i], true)
			case "getTransactionReceipt":
				ex.want = renderReceipt(m, b, i, true)
			default:
				ex.want = renderTxStatus(m, b, i)
			}
		}
		q.send(meth, nil, []param{{"transaction_hash", jstr(fhex(&hash))}}, ex)
	}
	if pick("getStorageAt") {
		id := q.genBlockID()
		a, akind := q.genAddr()
		slot := q.w.D.Gen().Slots[t.Draw("slot", len(q.w.D.Gen().Slots))]
		ex := notFoundOr(id.block, "", func() expectation {
			c := id.block.Post.Contracts[a]
			switch {
			case refstate.IsSystem(&a):
				// 0x1 / 0x2 hold storage without being deployed contracts: what a server answers for
				// them is not fixed; a returned value must still be the model's
				var v felt.Felt
				if c != nil {
					v = c.Storage[slot]
				}
				return expectation{loose: true, errCodes: []int{codeContractNotFound}, want: fhex(&v), scenario: "system_contract"}
			case c == nil:
				return expectation{errCodes: []int{codeContractNotFound}, scenario: "contract_absent_" + akind}
			}
			v := c.Storage[slot]
			scen := "slot_set"
			if v.IsZero() {
				scen = "slot_unset"
			}
			return expectation{want: fhex(&v), scenario: scen}
		})
		if ex.scenario == "slot_unset" {
			q.c.Probe("unset_slot_of_existing_contract")
		}
		q.send("getStorageAt", &id, []param{{"contract_address", jstr(fhex(&a))}, {"key", jstr(fhex(&slot))}, idParam(&id)}, ex)
	}
	for _, meth := range []string{"getNonce", "getClassHashAt", "getClassAt"} {
		if !pick(meth) {
			continue
		}
		id := q.genBlockID()
		a, akind := q.genAddr()
		ex := notFoundOr(id.block, "", func() expectation {
			c := id.block.Post.Contracts[a]
			switch {
			case refstate.IsSystem(&a):
				return expectation{loose: true, errCodes: []int{codeContractNotFound, codeClassNotFound}, want: "0x0", scenario: "system_contract"}
			case c == nil:
				return expectation{errCodes: []int{codeContractNotFound}, scenario: "contract_absent_" + akind}
			}
			switch meth {
			case "getNonce":
				return expectation{want: fhex(&c.Nonce), scenario: "contract_present"}
			case "getClassHashAt":
				return expectation{want: fhex(&c.ClassHash), scenario: "contract_present"}
			}
			cls := id.block.Post.Classes[c.ClassHash]
			if cls == nil || cls.Def == nil {
				// deployed with a class hash that was never declared: no class to serve; the
				// specification offers CONTRACT_NOT_FOUND only, CLASS_HASH_NOT_FOUND is tolerated
				return expectation{errCodes: []int{codeContractNotFound, codeClassNotFound}, scenario: "contract_with_undeclared_class"}
			}
			return expectation{want: renderClass(cls.Def), scenario: "contract_present"}
		})
		if ex.loose && meth == "getClassAt" {
			ex.want = nil
			ex.errCodes = []int{codeContractNotFound, codeClassNotFound}
			ex.loose = false
		}
		q.send(meth, &id, []param{idParam(&id), {"contract_address", jstr(fhex(&a))}}, ex)
	}
	if pick("getClass") {
		id := q.genBlockID()
		h, hkind := q.genClassHash()
		ex := notFoundOr(id.block, "", func() expectation {
			cls := id.block.Post.Classes[h]
			if cls == nil || cls.Def == nil {
				return expectation{errCodes: []int{codeClassNotFound}, scenario: "class_absent_" + hkind}
			}
			return expectation{want: renderClass(cls.Def), scenario: "class_declared"}
		})
		q.send("getClass", &id, []param{idParam(&id), {"class_hash", jstr(fhex(&h))}}, ex)
	}
}

func l1str(h *core.L1Head) string {
	if h == nil {
		return "unset"
	}
	return fmt.Sprint(h.BlockNumber)
}

// genTxHash: a canonical transaction, a transaction that only a reverted block carried, or a random hash.
func (q *querier) genTxHash() (felt.Felt, *chaingen.Block, int, string) {
	t, m := q.c.T, q.w.M
	type ref struct {
		b *chaingen.Block
		i int
	}
	var canon []ref
	canonSet := map[felt.Felt]bool{}
	for _, b := range m.Chain {
		for i, tx := range b.B.Transactions {
			canon = append(canon, ref{b, i})
			canonSet[*tx.Hash()] = true
		}
	}
	switch k := t.Draw("tx.pick", 5); {
	case k <= 2 && len(canon) > 0:
		r := canon[t.Draw("tx.canon", len(canon))]
		return *r.b.B.Transactions[r.i].Hash(), r.b, r.i, "tx_present"
	case k == 3:
		var rv []felt.Felt
		for _, b := range m.Reverted {
			for _, tx := range b.B.Transactions {
				if !canonSet[*tx.Hash()] {
					rv = append(rv, *tx.Hash())
				}
			}
		}
		if len(rv) > 0 {
			q.c.Probe("tx_of_reverted_block")
			return rv[t.Draw("tx.rev", len(rv))], nil, 0, "tx_reverted"
		}
	}
	return felt.FromUint64[felt.Felt](t.U64("tx.rand") | 1), nil, 0, "tx_random"
}

func (q *querier) genAddr() (felt.Felt, string) {
	t, g := q.c.T, q.w.D.Gen()
	switch k := t.Draw("addr.kind", 8); {
	case k == 0:
		return felt.FromUint64[felt.Felt](uint64(1 + t.Draw("addr.sys", 2))), "system"
	case k == 1:
		return felt.FromUint64[felt.Felt](0x999000 + uint64(t.Draw("addr.rand", 4))), "never_deployed"
	}
	return g.Addrs[t.Draw("addr", len(g.Addrs))], "alphabet"
}

// genClassHash: a class some block of the model (canonical or reverted) declared, or a random hash.
func (q *querier) genClassHash() (felt.Felt, string) {
	t, m := q.c.T, q.w.M
	all := map[felt.Felt]bool{}
	for _, b := range m.Chain {
		for h := range b.Classes {
			all[h] = true
		}
	}
	for _, b := range m.Reverted {
		for h := range b.Classes {
			all[h] = true
		}
	}
	hs := refstate.SortedFelts(all)
	if len(hs) > 0 && t.Draw("class.pick", 5) != 0 {
		return hs[t.Draw("class", len(hs))], "known"
	}
	return felt.FromUint64[felt.Felt](0xc1a550000 + uint64(t.Draw("class.rand", 4))), "random"
}

// C08: JSON-RPC read methods answer from the chain the node actually holds.
func C08(c *sim.Ctx) {
	w := NewWorld(c)
	defer w.Close()
	k := NewCollector(c)
	q := &querier{w: w, k: k, c: c}
	t := c.T
	maxBlocks := 3 + t.Draw("max.blocks", 6)
	steps := 4 + t.Draw("steps", 14)
	maxReq := 300
	for s := 0; s < steps; s++ {
		n := len(w.M.Chain)
		op := t.Draw("op", 12)
		switch {
		case op <= 5 || (n == 0 && op <= 8):
			if n >= maxBlocks {
				continue
			}
			w.Store()
		case op <= 7:
			w.Revert()
			if len(w.M.Chain) == 0 {
				c.Probe("revert_to_empty_chain")
			}
		case op == 8:
			w.Restart(t.Draw("restart.graceful", 2) == 1)
		default:
			// L1 head below / at / above the local head
			var target uint64
			switch pos := t.Draw("l1.pos", 3); {
			case pos == 0 && n >= 2:
				target = uint64(t.Draw("l1.below", n-1))
				c.Probe("l1_head_set_below_local_head")
			case pos == 1 && n >= 1:
				target = uint64(n - 1)
				c.Probe("l1_head_set_at_local_head")
			default:
				target = uint64(n + t.Draw("l1.above", 3))
				c.Probe("l1_head_set_above_local_head")
			}
			if t.Draw("l1.write.fails", 5) == 4 {
				w.SetL1HeadFailing(target)
			} else {
				w.SetL1Head(target)
			}
		}
		if q.requests < maxReq && t.Draw("query.now", 3) != 0 {
			q.round()
		}
	}
	if q.requests < maxReq || q.rounds == 0 {
		q.round()
	}
	c.Nontrivial = len(w.M.Chain)+len(w.M.Reverted) >= 2 && (w.Reverts+w.Restarts+w.L1Moves) > 0 && q.rounds > 0
	c.Sample = map[string]any{"blocks": len(w.M.Chain), "reverted": len(w.M.Reverted), "requests": q.requests, "rounds": q.rounds}
	k.Report()
}
