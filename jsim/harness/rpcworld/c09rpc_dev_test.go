package rpcworld

import (
	"fmt"
	"os"
	"sort"
	"testing"
	"time"

	"jsim/sim"
)

// TestDevC09Runs executes seeded runs of the C09 rpc harness in-process (development aid; skipped
// unless JSIM_DEV=1). JSIM_DEVN runs, JSIM_DEVSEED prints the trace of one seed instead.
func TestDevC09Runs(t *testing.T) {
	if os.Getenv("JSIM_DEV") != "1" {
		t.Skip("dev only")
	}
	if s := os.Getenv("JSIM_DEVSEED"); s != "" {
		var seed uint64
		fmt.Sscan(s, &seed)
		r := sim.Exec(C09RPC, "C09", "quick", seed, sim.Options{PanicIsViolation: true})
		for _, e := range r.Events {
			if len(e) > 900 {
				e = e[:900]
			}
			fmt.Println("  ", e)
		}
		if r.Violation != nil {
			fmt.Println("VIOLATION", r.Violation.Key, r.Violation.Detail)
		}
		fmt.Println("machinery:", r.Machinery)
		return
	}
	n := 200
	if s := os.Getenv("JSIM_DEVN"); s != "" {
		fmt.Sscan(s, &n)
	}
	keys := map[string]int{}
	first := map[string]string{}
	probes := map[string]int{}
	faults := map[string]int{}
	nontriv, evals := 0, 0
	t0 := time.Now()
	for i := 0; i < n; i++ {
		r := sim.Exec(C09RPC, "C09", "quick", uint64(1000+i), sim.Options{PanicIsViolation: true})
		if r.Machinery != "" {
			fmt.Printf("seed %d MACHINERY: %s\n", r.Seed, r.Machinery)
			continue
		}
		if r.Nontrivial {
			nontriv++
		}
		evals += r.Evals
		for k, v := range r.Probes {
			probes[k] += v
		}
		for k, v := range r.Faults {
			faults[k] += v
		}
		if r.Violation != nil {
			keys[r.Violation.Key]++
			if _, ok := first[r.Violation.Key]; !ok {
				first[r.Violation.Key] = fmt.Sprintf("seed %d: %s", r.Seed, r.Violation.Detail)
			}
		}
	}
	fmt.Printf("runs=%d nontrivial=%d evals=%d wall=%v\n", n, nontriv, evals, time.Since(t0))
	for _, m := range []map[string]int{probes, faults} {
		ks := make([]string, 0, len(m))
		for k := range m {
			ks = append(ks, k)
		}
		sort.Strings(ks)
		for _, k := range ks {
			fmt.Printf("  %-45s %d\n", k, m[k])
		}
		fmt.Println("  --")
	}
	ks := make([]string, 0, len(keys))
	for k := range keys {
		ks = append(ks, k)
	}
	sort.Strings(ks)
	for _, k := range ks {
		d := first[k]
		if len(d) > 1500 {
			d = d[:1500]
		}
		fmt.Printf("VIOLATION x%d %s\n    %s\n", keys[k], k, d)
	}
}
