package rpcworld

// Independent renderer: turns the model chain (chaingen blocks + refstate) into the JSON that the
// Starknet JSON-RPC specification prescribes, for the fields the v0.8 / v0.9 / v0.10 specifications
// SHARE. It is written from the specification text (schemas BLOCK_HEADER, TXN, TXN_RECEIPT,
// STATE_UPDATE, CONTRACT_CLASS, TXN_STATUS_RESULT ...) and does not call any of juno's adapters.
// Comparison is a projection: every field rendered here must be present and equal in the answer;
// fields the answer has in addition (version specific ones) are ignored.

import (
	"encoding/hex"
	"encoding/json"
	"fmt"
	"math/big"
	"regexp"
	"sort"
	"strconv"
	"strings"

	"github.com/NethermindEth/juno/core"
	"github.com/NethermindEth/juno/core/felt"

	"jsim/chaingen"
	"jsim/harness/node"
	"jsim/refstate"
)

type J = map[string]any

// fhex: canonical FELT rendering of the specification: "0x" + lowercase hex without leading zeros.
func fhex(f *felt.Felt) string {
	if f == nil {
		return "0x0"
	}
	var b big.Int
	f.BigInt(&b)
	return "0x" + b.Text(16)
}

func uhex(u uint64) string { return "0x" + strconv.FormatUint(u, 16) }

func num(u uint64) json.Number { return json.Number(strconv.FormatUint(u, 10)) }

func felts(xs []felt.Felt) []any {
	out := make([]any, len(xs))
	for i := range xs {
		out[i] = fhex(&xs[i])
	}
	return out
}

func price(wei, fri *felt.Felt) J { return J{"price_in_wei": fhex(wei), "price_in_fri": fhex(fri)} }

// Finality: ACCEPTED_ON_L1 iff an L1 head is recorded and the block number is <= its number.
func Finality(m *node.Model, number uint64) string {
	if m.L1Head != nil && number <= m.L1Head.BlockNumber {
		return "ACCEPTED_ON_L1"
	}
	return "ACCEPTED_ON_L2"
}

// BLOCK_HEADER + status (shared by the three versions)
func renderHeader(m *node.Model, b *chaingen.Block) J {
	h := b.B.Header
	da := "BLOB"
	if h.L1DAMode == core.Calldata {
		da = "CALLDATA"
	}
	return J{
		"status":            Finality(m, h.Number),
		"block_hash":        fhex(h.Hash),
		"parent_hash":       fhex(h.ParentHash),
		"block_number":      num(h.Number),
		"new_root":          fhex(h.GlobalStateRoot),
		"timestamp":         num(h.Timestamp),
		"sequencer_address": fhex(h.SequencerAddress),
		"l1_gas_price":      price(h.L1GasPriceETH, h.L1GasPriceSTRK),
		"l1_data_gas_price": price(h.L1DataGasPrice.PriceInWei, h.L1DataGasPrice.PriceInFri),
		"l2_gas_price":      price(h.L2GasPrice.PriceInWei, h.L2GasPrice.PriceInFri),
		"l1_da_mode":        da,
		"starknet_version":  h.ProtocolVersion,
	}
}

func daMode(m core.DataAvailabilityMode) string {
	if m == core.DAModeL2 {
		return "L2"
	}
	return "L1"
}

func bounds(rb map[core.Resource]core.ResourceBounds) J {
	one := func(r core.ResourceBounds) J {
		return J{"max_amount": uhex(r.MaxAmount), "max_price_per_unit": fhex(r.MaxPricePerUnit)}
	}
	out := J{"l1_gas": one(rb[core.ResourceL1Gas]), "l2_gas": one(rb[core.ResourceL2Gas])}
	// l1_data_gas is compared only when the transaction carries it (older v3 transactions do not,
	// and what a server prints then is a convention, not data of the chain)
	if r, ok := rb[core.ResourceL1DataGas]; ok {
		out["l1_data_gas"] = one(r)
	}
	return out
}

// TXN: the per type / per version objects of the specification.
func renderTx(tx core.Transaction, withHash bool) J {
	var o J
	switch t := tx.(type) {
	case *core.InvokeTransaction:
		o = J{"type": "INVOKE", "calldata": felts(t.CallData), "signature": felts(t.TransactionSignature)}
		switch v := t.Version.AsFelt().Uint64(); v {
		case 0:
			o["version"] = "0x0"
			o["max_fee"] = fhex(t.MaxFee)
			o["contract_address"] = fhex(t.ContractAddress)
			o["entry_point_selector"] = fhex(t.EntryPointSelector)
		case 1:
			o["version"] = "0x1"
			o["max_fee"] = fhex(t.MaxFee)
			o["sender_address"] = fhex(t.SenderAddress)
			o["nonce"] = fhex(t.Nonce)
		default:
			o["version"] = "0x3"
			o["sender_address"] = fhex(t.SenderAddress)
			o["nonce"] = fhex(t.Nonce)
			o["resource_bounds"] = bounds(t.ResourceBounds)
			o["tip"] = uhex(t.Tip)
			o["paymaster_data"] = felts(t.PaymasterData)
			o["account_deployment_data"] = felts(t.AccountDeploymentData)
			o["nonce_data_availability_mode"] = daMode(t.NonceDAMode)
			o["fee_data_availability_mode"] = daMode(t.FeeDAMode)
		}
	case *core.DeclareTransaction:
		o = J{"type": "DECLARE", "class_hash": fhex(t.ClassHash), "sender_address": fhex(t.SenderAddress),
			"signature": felts(t.TransactionSignature), "nonce": fhex(t.Nonce)}
		switch v := t.Version.AsFelt().Uint64(); v {
		case 1:
			o["version"] = "0x1"
			o["max_fee"] = fhex(t.MaxFee)
		case 2:
			o["version"] = "0x2"
			o["max_fee"] = fhex(t.MaxFee)
			o["compiled_class_hash"] = fhex(t.CompiledClassHash)
		default:
			o["version"] = "0x3"
			o["compiled_class_hash"] = fhex(t.CompiledClassHash)
			o["resource_bounds"] = bounds(t.ResourceBounds)
			o["tip"] = uhex(t.Tip)
			o["paymaster_data"] = felts(t.PaymasterData)
			o["account_deployment_data"] = felts(t.AccountDeploymentData)
			o["nonce_data_availability_mode"] = daMode(t.NonceDAMode)
			o["fee_data_availability_mode"] = daMode(t.FeeDAMode)
		}
	case *core.DeployAccountTransaction:
		o = J{"type": "DEPLOY_ACCOUNT", "class_hash": fhex(t.ClassHash), "contract_address_salt": fhex(t.ContractAddressSalt),
			"constructor_calldata": felts(t.ConstructorCallData), "signature": felts(t.TransactionSignature), "nonce": fhex(t.Nonce)}
		if t.Version.AsFelt().Uint64() == 1 {
			o["version"] = "0x1"
			o["max_fee"] = fhex(t.MaxFee)
		} else {
			o["version"] = "0x3"
			o["resource_bounds"] = bounds(t.ResourceBounds)
			o["tip"] = uhex(t.Tip)
			o["paymaster_data"] = felts(t.PaymasterData)
			o["nonce_data_availability_mode"] = daMode(t.NonceDAMode)
			o["fee_data_availability_mode"] = daMode(t.FeeDAMode)
		}
	case *core.L1HandlerTransaction:
		o = J{"type": "L1_HANDLER", "version": "0x0", "nonce": fhex(t.Nonce), "contract_address": fhex(t.ContractAddress),
			"entry_point_selector": fhex(t.EntryPointSelector), "calldata": felts(t.CallData)}
	case *core.DeployTransaction:
		o = J{"type": "DEPLOY", "version": "0x0", "class_hash": fhex(t.ClassHash), "contract_address_salt": fhex(t.ContractAddressSalt),
			"constructor_calldata": felts(t.ConstructorCallData)}
	default:
		panic(fmt.Sprintf("renderTx: unknown transaction type %T", tx))
	}
	if withHash {
		o["transaction_hash"] = fhex(tx.Hash())
	}
	return o
}

func txTypeName(tx core.Transaction) string { return renderTx(tx, false)["type"].(string) }

// TXN_RECEIPT core fields.
func renderReceipt(m *node.Model, b *chaingen.Block, i int, withBlockInfo bool) J {
	tx, r := b.B.Transactions[i], b.B.Receipts[i]
	o := J{
		"type":             txTypeName(tx),
		"transaction_hash": fhex(tx.Hash()),
		"actual_fee":       J{"amount": fhex(r.Fee)},
		"finality_status":  Finality(m, b.B.Number),
	}
	if r.Reverted {
		o["execution_status"] = "REVERTED"
		if r.RevertReason != "" {
			o["revert_reason"] = r.RevertReason
		}
	} else {
		o["execution_status"] = "SUCCEEDED"
	}
	evs := make([]any, len(r.Events))
	for j, e := range r.Events {
		evs[j] = J{"from_address": fhex(e.From), "keys": felts(e.Keys), "data": felts(e.Data)}
	}
	o["events"] = evs
	msgs := make([]any, len(r.L2ToL1Message))
	for j, mm := range r.L2ToL1Message {
		msgs[j] = J{"from_address": fhex(mm.From), "to_address": "0x" + hex.EncodeToString(mm.To[:]), "payload": felts(mm.Payload)}
	}
	o["messages_sent"] = msgs
	switch t := tx.(type) {
	case *core.DeployTransaction:
		o["contract_address"] = fhex(t.ContractAddress)
	case *core.DeployAccountTransaction:
		o["contract_address"] = fhex(t.ContractAddress)
	}
	if withBlockInfo {
		o["block_hash"] = fhex(b.B.Hash)
		o["block_number"] = num(b.B.Number)
	}
	return o
}

// TXN_STATUS_RESULT
func renderTxStatus(m *node.Model, b *chaingen.Block, i int) J {
	r := b.B.Receipts[i]
	o := J{"finality_status": Finality(m, b.B.Number), "execution_status": "SUCCEEDED"}
	if r.Reverted {
		o["execution_status"] = "REVERTED"
		if r.RevertReason != "" {
			o["failure_reason"] = r.RevertReason
		}
	}
	return o
}

func renderBlockWithTxHashes(m *node.Model, b *chaingen.Block) J {
	o := renderHeader(m, b)
	hs := make([]any, len(b.B.Transactions))
	for i, tx := range b.B.Transactions {
		hs[i] = fhex(tx.Hash())
	}
	o["transactions"] = hs
	return o
}

func renderBlockWithTxs(m *node.Model, b *chaingen.Block) J {
	o := renderHeader(m, b)
	txs := make([]any, len(b.B.Transactions))
	for i, tx := range b.B.Transactions {
		txs[i] = renderTx(tx, true)
	}
	o["transactions"] = txs
	return o
}

func renderBlockWithReceipts(m *node.Model, b *chaingen.Block) J {
	o := renderHeader(m, b)
	txs := make([]any, len(b.B.Transactions))
	for i, tx := range b.B.Transactions {
		// BLOCK_BODY_WITH_RECEIPTS: the transaction object carries no hash (it is in the receipt)
		txs[i] = J{"transaction": renderTx(tx, false), "receipt": renderReceipt(m, b, i, false)}
	}
	o["transactions"] = txs
	return o
}

// STATE_UPDATE (lists are sets: both sides are sorted before comparison, see sortStateUpdate)
func renderStateUpdate(b *chaingen.Block) J {
	d := b.SU.StateDiff
	sd := []any{}
	for _, a := range refstate.SortedFelts(d.StorageDiffs) {
		ents := []any{}
		for _, k := range refstate.SortedFelts(d.StorageDiffs[a]) {
			ents = append(ents, J{"key": fhex(&k), "value": fhex(d.StorageDiffs[a][k])})
		}
		sd = append(sd, J{"address": fhex(&a), "storage_entries": ents})
	}
	nonces := []any{}
	for _, a := range refstate.SortedFelts(d.Nonces) {
		nonces = append(nonces, J{"contract_address": fhex(&a), "nonce": fhex(d.Nonces[a])})
	}
	dep := []any{}
	for _, a := range refstate.SortedFelts(d.DeployedContracts) {
		dep = append(dep, J{"address": fhex(&a), "class_hash": fhex(d.DeployedContracts[a])})
	}
	rep := []any{}
	for _, a := range refstate.SortedFelts(d.ReplacedClasses) {
		rep = append(rep, J{"contract_address": fhex(&a), "class_hash": fhex(d.ReplacedClasses[a])})
	}
	d0 := []any{}
	for _, h := range d.DeclaredV0Classes {
		d0 = append(d0, fhex(h))
	}
	d1 := []any{}
	for _, h := range refstate.SortedFelts(d.DeclaredV1Classes) {
		d1 = append(d1, J{"class_hash": fhex(&h), "compiled_class_hash": fhex(d.DeclaredV1Classes[h])})
	}
	return J{
		"block_hash": fhex(b.B.Hash),
		"new_root":   fhex(b.SU.NewRoot),
		"old_root":   fhex(b.SU.OldRoot),
		"state_diff": J{
			"storage_diffs":               sd,
			"nonces":                      nonces,
			"deployed_contracts":          dep,
			"replaced_classes":            rep,
			"deprecated_declared_classes": d0,
			"declared_classes":            d1,
		},
	}
}

// CONTRACT_CLASS / DEPRECATED_CONTRACT_CLASS
func renderClass(def core.ClassDefinition) J {
	switch c := def.(type) {
	case *core.SierraClass:
		eps := func(xs []core.SierraEntryPoint) []any {
			out := make([]any, len(xs))
			for i, e := range xs {
				out[i] = J{"selector": fhex(e.Selector), "function_idx": num(e.Index)}
			}
			return out
		}
		return J{
			"sierra_program":         felts(c.Program),
			"contract_class_version": c.SemanticVersion,
			"entry_points_by_type": J{
				"CONSTRUCTOR": eps(c.EntryPoints.Constructor),
				"EXTERNAL":    eps(c.EntryPoints.External),
				"L1_HANDLER":  eps(c.EntryPoints.L1Handler),
			},
			"abi": c.Abi,
		}
	case *core.DeprecatedCairoClass:
		eps := func(xs []core.DeprecatedEntryPoint) []any {
			out := make([]any, len(xs))
			for i, e := range xs {
				out[i] = J{"selector": fhex(e.Selector), "offset": fhex(e.Offset)}
			}
			return out
		}
		var abi any
		dec := json.NewDecoder(strings.NewReader(string(c.Abi)))
		dec.UseNumber()
		_ = dec.Decode(&abi)
		return J{
			"program": c.Program,
			"entry_points_by_type": J{
				"CONSTRUCTOR": eps(c.Constructors),
				"EXTERNAL":    eps(c.Externals),
				"L1_HANDLER":  eps(c.L1Handlers),
			},
			"abi": abi,
		}
	}
	panic(fmt.Sprintf("renderClass: unknown class type %T", def))
}

// ---- comparison --------------------------------------------------------------------------------------

var hexRe = regexp.MustCompile(`^0[xX][0-9a-fA-F]+$`)

// normScalar: hex strings are normalised to canonical 0x-hex (lowercase, no leading zeros);
// numbers are compared by their decimal text.
func normScalar(v any) any {
	switch x := v.(type) {
	case string:
		if hexRe.MatchString(x) {
			s := strings.TrimLeft(strings.ToLower(x[2:]), "0")
			if s == "" {
				s = "0"
			}
			return "0x" + s
		}
		return x
	case json.Number:
		return "#" + x.String()
	case float64:
		return "#" + strconv.FormatFloat(x, 'f', -1, 64)
	case int:
		return "#" + strconv.Itoa(x)
	case uint64:
		return "#" + strconv.FormatUint(x, 10)
	}
	return v
}

// subsetDiff returns "" when every field of want is present and equal in got (extra fields of got
// are ignored), else a description of the first difference.
func subsetDiff(path string, want, got any) string {
	switch w := want.(type) {
	case J:
		g, ok := got.(map[string]any)
		if !ok {
			return fmt.Sprintf("%s: expected an object, got %s", path, brief(got))
		}
		keys := make([]string, 0, len(w))
		for k := range w {
			keys = append(keys, k)
		}
		sort.Strings(keys)
		for _, k := range keys {
			gv, ok := g[k]
			if !ok {
				return fmt.Sprintf("%s.%s: field missing (expected %s)", path, k, brief(w[k]))
			}
			if d := subsetDiff(path+"."+k, w[k], gv); d != "" {
				return d
			}
		}
		return ""
	case []any:
		g, ok := got.([]any)
		if !ok {
			return fmt.Sprintf("%s: expected an array of %d, got %s", path, len(w), brief(got))
		}
		if len(g) != len(w) {
			return fmt.Sprintf("%s: expected %d elements, got %d", path, len(w), len(g))
		}
		for i := range w {
			if d := subsetDiff(fmt.Sprintf("%s[%d]", path, i), w[i], g[i]); d != "" {
				return d
			}
		}
		return ""
	case nil:
		if got != nil {
			return fmt.Sprintf("%s: expected null, got %s", path, brief(got))
		}
		return ""
	}
	if nw, ng := normScalar(want), normScalar(got); nw != ng {
		return fmt.Sprintf("%s: expected %s, got %s", path, brief(want), brief(got))
	}
	return ""
}

func brief(v any) string {
	b, _ := json.Marshal(v)
	if len(b) > 160 {
		return string(b[:160]) + "..."
	}
	return string(b)
}

// sortListBy sorts a JSON list of objects by the (normalised) value of one field; lists of plain
// strings are sorted by their normalised value. Applied to both sides of set-valued lists.
func sortListBy(v any, field string) {
	l, ok := v.([]any)
	if !ok {
		return
	}
	key := func(e any) string {
		if m, ok := e.(map[string]any); ok {
			return fmt.Sprint(normScalar(m[field]))
		}
		return fmt.Sprint(normScalar(e))
	}
	sort.SliceStable(l, func(i, j int) bool {
		a, b := key(l[i]), key(l[j])
		if len(a) != len(b) {
			return len(a) < len(b)
		}
		return a < b
	})
}

// sortStateUpdate canonicalises the set-valued lists of a STATE_UPDATE object in place.
func sortStateUpdate(v any) {
	m, ok := v.(map[string]any)
	if !ok {
		return
	}
	sd, ok := m["state_diff"].(map[string]any)
	if !ok {
		return
	}
	sortListBy(sd["storage_diffs"], "address")
	if l, ok := sd["storage_diffs"].([]any); ok {
		for _, e := range l {
			if em, ok := e.(map[string]any); ok {
				sortListBy(em["storage_entries"], "key")
			}
		}
	}
	sortListBy(sd["nonces"], "contract_address")
	sortListBy(sd["deployed_contracts"], "address")
	sortListBy(sd["replaced_classes"], "contract_address")
	sortListBy(sd["declared_classes"], "class_hash")
	sortListBy(sd["deprecated_declared_classes"], "")
}
