package rpcworld

import (
	"encoding/json"
	"fmt"
	"math/big"
	"runtime"
	"strings"

	"github.com/Masterminds/semver/v3"
	"github.com/NethermindEth/juno/core/crypto"
	"github.com/NethermindEth/juno/core/felt"

	"jsim/chaingen"
	"jsim/refmpt"
	"jsim/refstate"
	"jsim/sim"
)

const (
	codeStorageProofNotSupported = 42
	codeInternal                 = -32603
)

// ---- independent verifier of a starknet_getStorageProof result (written from the RPC specification) ----
//
//	result.classes_proof                       NODE_HASH_TO_NODE_MAPPING of the classes tree (Poseidon)
//	result.contracts_proof.nodes               NODE_HASH_TO_NODE_MAPPING of the contracts tree (Pedersen)
//	result.contracts_proof.contract_leaves_data  per requested contract: nonce, class_hash, storage_root
//	result.contracts_storage_proofs            one NODE_HASH_TO_NODE_MAPPING per requested contract (Pedersen)
//	result.global_roots                        contracts_tree_root, classes_tree_root, block_hash
//
//	MERKLE_NODE = BINARY_NODE {left, right} | EDGE_NODE {path, length, child}
//	contract leaf  = H(H(H(class_hash, storage_root), nonce), 0)              (Pedersen)
//	class leaf     = Poseidon("CONTRACT_CLASS_LEAF_V0", compiled_class_hash)
//	state root     = Poseidon("STARKNET_STATE_V0", contracts_root, classes_root)
//	                 (before 0.14.0: the contracts root itself while the classes tree is empty)

var (
	feltPrime, _  = new(big.Int).SetString("800000000000011000000000000000000000000000000000000000000000001", 16)
	stateVersion0 = new(felt.Felt).SetBytes([]byte("STARKNET_STATE_V0"))
	v0_14_0       = semver.MustParse("0.14.0")
)

func parseFelt(v any) (felt.Felt, error) {
	s, ok := v.(string)
	if !ok || !hexRe.MatchString(s) {
		return felt.Zero, fmt.Errorf("not a FELT: %s", brief(v))
	}
	b, ok := new(big.Int).SetString(s[2:], 16)
	if !ok || b.Cmp(feltPrime) >= 0 {
		return felt.Zero, fmt.Errorf("not a FELT: %s", brief(v))
	}
	return bigFelt(b), nil
}

func parseNodes(v any) ([]PEntry, error) {
	l, ok := v.([]any)
	if !ok {
		return nil, fmt.Errorf("node mapping is not an array: %s", brief(v))
	}
	out := make([]PEntry, 0, len(l))
	for _, e := range l {
		m, ok := e.(map[string]any)
		if !ok {
			return nil, fmt.Errorf("node mapping element is not an object: %s", brief(e))
		}
		var pe PEntry
		var err error
		if pe.Key, err = parseFelt(m["node_hash"]); err != nil {
			return nil, fmt.Errorf("node_hash: %v", err)
		}
		n, ok := m["node"].(map[string]any)
		if !ok {
			return nil, fmt.Errorf("node is not an object: %s", brief(m["node"]))
		}
		_, hasLeft := n["left"]
		_, hasPath := n["path"]
		switch {
		case hasLeft && !hasPath:
			pe.N.Binary = true
			if pe.N.Left, err = parseFelt(n["left"]); err != nil {
				return nil, fmt.Errorf("binary.left: %v", err)
			}
			if pe.N.Right, err = parseFelt(n["right"]); err != nil {
				return nil, fmt.Errorf("binary.right: %v", err)
			}
		case hasPath && !hasLeft:
			if pe.N.Path, err = parseFelt(n["path"]); err != nil {
				return nil, fmt.Errorf("edge.path: %v", err)
			}
			if pe.N.Child, err = parseFelt(n["child"]); err != nil {
				return nil, fmt.Errorf("edge.child: %v", err)
			}
			ln, ok := n["length"].(json.Number)
			if !ok {
				return nil, fmt.Errorf("edge.length is not an integer: %s", brief(n["length"]))
			}
			li, err := ln.Int64()
			if err != nil || li < 1 || li > 251 {
				return nil, fmt.Errorf("edge.length out of range: %s", ln)
			}
			pe.N.Len = uint8(li)
		default:
			return nil, fmt.Errorf("node is neither BINARY_NODE nor EDGE_NODE: %s", brief(n))
		}
		out = append(out, pe)
	}
	return out, nil
}

func stateCommitment(contractsRoot, classesRoot *felt.Felt, version string) felt.Felt {
	if contractsRoot.IsZero() && classesRoot.IsZero() {
		return felt.Zero
	}
	v := semver.MustParse(version)
	if classesRoot.IsZero() && v.LessThan(v0_14_0) {
		return *contractsRoot
	}
	return crypto.PoseidonElems(stateVersion0, contractsRoot, classesRoot)
}

type proofRequest struct {
	classes   []felt.Felt
	contracts []felt.Felt
	storage   []struct {
		addr felt.Felt
		keys []felt.Felt
	}
}

func (r *proofRequest) params(id string) string {
	fl := func(xs []felt.Felt) string {
		parts := make([]string, len(xs))
		for i := range xs {
			parts[i] = jstr(fhex(&xs[i]))
		}
		return "[" + strings.Join(parts, ",") + "]"
	}
	parts := []string{`"block_id":` + id}
	if len(r.classes) > 0 {
		parts = append(parts, `"class_hashes":`+fl(r.classes))
	}
	if len(r.contracts) > 0 {
		parts = append(parts, `"contract_addresses":`+fl(r.contracts))
	}
	if len(r.storage) > 0 {
		var sk []string
		for _, s := range r.storage {
			sk = append(sk, fmt.Sprintf(`{"contract_address":%s,"storage_keys":%s}`, jstr(fhex(&s.addr)), fl(s.keys)))
		}
		parts = append(parts, `"contracts_storage_keys":[`+strings.Join(sk, ",")+`]`)
	}
	return "{" + strings.Join(parts, ",") + "}"
}

type rpcProver struct {
	w      *World
	k      *Collector
	c      *sim.Ctx
	rounds int
	served int
}

func (p *rpcProver) fail(class, key, format string, a ...any) {
	p.k.Add(class, key, format, a...)
}

// verify checks one result against block b of the model. tag names version and request for messages.
func (p *rpcProver) verify(tag string, res any, b *chaingen.Block, req *proofRequest) {
	c := p.c
	m, ok := res.(map[string]any)
	if !ok {
		p.fail("storage_proof_malformed", "result", "%s: result is not an object: %s", tag, brief(res))
		return
	}
	gr, ok := m["global_roots"].(map[string]any)
	if !ok {
		p.fail("storage_proof_malformed", "global_roots", "%s: global_roots missing: %s", tag, brief(res))
		return
	}
	cRoot, e1 := parseFelt(gr["contracts_tree_root"])
	clRoot, e2 := parseFelt(gr["classes_tree_root"])
	bHash, e3 := parseFelt(gr["block_hash"])
	if e1 != nil || e2 != nil || e3 != nil {
		p.fail("storage_proof_malformed", "global_roots", "%s: global_roots fields: %v %v %v", tag, e1, e2, e3)
		return
	}
	post := b.Post
	if !bHash.Equal(b.B.Hash) {
		p.fail("storage_proof_wrong_block", "block_hash", "%s: global_roots.block_hash %s is not the hash %s of the block the proof is served for (block %d)", tag, bHash.String(), b.B.Hash.String(), b.B.Number)
		return
	}
	if comm := stateCommitment(&cRoot, &clRoot, b.Version); !comm.Equal(b.B.GlobalStateRoot) {
		p.fail("storage_proof_wrong_block", "state_root", "%s: state commitment recomputed from global_roots (%s) differs from the state root %s of block %d", tag, comm.String(), b.B.GlobalStateRoot.String(), b.B.Number)
		return
	}
	if wcr, wclr := post.ContractRoot(), post.ClassRoot(); !wcr.Equal(&cRoot) || !wclr.Equal(&clRoot) {
		p.fail("storage_proof_wrong_block", "tree_roots", "%s: global_roots (%s, %s) differ from the reference roots (%s, %s) of block %d", tag, cRoot.String(), clRoot.String(), wcr.String(), wclr.String(), b.B.Number)
		return
	}
	c.Evals++
	checkHashes := func(what string, es []PEntry, h refmpt.HashFn) bool {
		for i := range es {
			if hh := es[i].N.Hash(h); !hh.Equal(&es[i].Key) {
				p.fail("storage_proof_node_hash", what, "%s: %s node %s is listed under node_hash %s but hashes to %s", tag, what, es[i].N.String(), es[i].Key.String(), hh.String())
				return false
			}
		}
		return true
	}
	walk := func(what string, root, key *felt.Felt, es []PEntry, h refmpt.HashFn, want *felt.Felt) {
		c.Evals++
		r, err := RefVerify(root, key, es, trieHeight, h)
		if err != nil {
			p.fail("storage_proof_incomplete", what, "%s: %s proof of key %s does not verify against root %s: %v (%d nodes; model value %s)", tag, what, key.String(), root.String(), err, len(es), want.String())
			return
		}
		if !r.Value.Equal(want) {
			p.fail("storage_proof_wrong_value", what, "%s: %s proof establishes %s for key %s, the state of block %d holds %s", tag, what, r.Value.String(), key.String(), b.B.Number, want.String())
			return
		}
		if r.Absent {
			c.Probe("rpc_" + what + "_absent")
			c.Probe("rpc_absent_" + absentShape(r, trieHeight))
		} else {
			c.Probe("rpc_" + what + "_present")
		}
	}
	// classes
	ces, err := parseNodes(m["classes_proof"])
	if err != nil {
		p.fail("storage_proof_malformed", "classes_proof", "%s: classes_proof: %v", tag, err)
		return
	}
	if !checkHashes("class", ces, refmpt.Poseidon) {
		return
	}
	leaves := post.ClassLeaves()
	for i := range req.classes {
		want := leaves[req.classes[i]]
		walk("class", &clRoot, &req.classes[i], ces, refmpt.Poseidon, &want)
	}
	// contracts
	cp, ok := m["contracts_proof"].(map[string]any)
	if !ok {
		p.fail("storage_proof_malformed", "contracts_proof", "%s: contracts_proof missing", tag)
		return
	}
	nes, err := parseNodes(cp["nodes"])
	if err != nil {
		p.fail("storage_proof_malformed", "contracts_proof", "%s: contracts_proof.nodes: %v", tag, err)
		return
	}
	if !checkHashes("contract", nes, refmpt.Pedersen) {
		return
	}
	ld, _ := cp["contract_leaves_data"].([]any)
	if len(ld) != len(req.contracts) {
		p.fail("storage_proof_malformed", "contract_leaves_data", "%s: %d contract_leaves_data entries for %d requested contracts", tag, len(ld), len(req.contracts))
		return
	}
	for i := range req.contracts {
		a := req.contracts[i]
		mc := post.Contracts[a]
		var want felt.Felt
		if mc != nil {
			want = refstate.ContractLeaf(mc)
		}
		walk("contract", &cRoot, &a, nes, refmpt.Pedersen, &want)
		lm, isObj := ld[i].(map[string]any)
		if mc == nil || mc.System {
			continue // nothing is specified about the leaf data of a non-deployed address
		}
		if !isObj {
			p.fail("storage_proof_leaf_data", "missing", "%s: contract_leaves_data[%d] is %s for the deployed contract %s", tag, i, brief(ld[i]), a.String())
			continue
		}
		nonce, e1 := parseFelt(lm["nonce"])
		ch, e2 := parseFelt(lm["class_hash"])
		if e1 != nil || e2 != nil {
			p.fail("storage_proof_malformed", "contract_leaves_data", "%s: contract_leaves_data[%d]: %v %v", tag, i, e1, e2)
			continue
		}
		if !nonce.Equal(&mc.Nonce) || !ch.Equal(&mc.ClassHash) {
			p.fail("storage_proof_leaf_data", "nonce_or_class_hash", "%s: contract_leaves_data[%d] of %s = (nonce %s, class %s), block %d holds (nonce %s, class %s)", tag, i, a.String(), nonce.String(), ch.String(), b.B.Number, mc.Nonce.String(), mc.ClassHash.String())
			continue
		}
		if srv, has := lm["storage_root"]; has && srv != nil {
			sr, err := parseFelt(srv)
			if err != nil {
				p.fail("storage_proof_malformed", "contract_leaves_data", "%s: contract_leaves_data[%d].storage_root: %v", tag, i, err)
				continue
			}
			// recompute the leaf from the returned data: it must be the proven leaf
			h1 := crypto.Pedersen(&ch, &sr)
			h2 := crypto.Pedersen(&h1, &nonce)
			leaf := crypto.Pedersen(&h2, &felt.Zero)
			if !leaf.Equal(&want) {
				p.fail("storage_proof_leaf_data", "leaf_recomputation", "%s: H(H(H(class_hash, storage_root), nonce), 0) of contract_leaves_data[%d] = %s is not the leaf %s of contract %s", tag, i, leaf.String(), want.String(), a.String())
			}
		}
	}
	// storage: the lists are walked as one set (nodes are content addressed, so this cannot accept
	// anything a per-list walk would reject for a good reason; it avoids depending on list order)
	sp, _ := m["contracts_storage_proofs"].([]any)
	// a request may name the same contract in several entries: one list per entry, or one per contract
	uniq := map[felt.Felt]bool{}
	for _, s := range req.storage {
		uniq[s.addr] = true
	}
	if len(sp) != len(req.storage) && len(sp) != len(uniq) {
		p.fail("storage_proof_malformed", "contracts_storage_proofs", "%s: %d contracts_storage_proofs lists for %d requested entries (%d distinct contracts)", tag, len(sp), len(req.storage), len(uniq))
		return
	}
	if len(uniq) < len(req.storage) {
		c.Probe("rpc_storage_contract_named_in_several_entries")
	}
	var ses []PEntry
	var lists [][]PEntry
	inOrder := true
	for i := range sp {
		es, err := parseNodes(sp[i])
		if err != nil {
			p.fail("storage_proof_malformed", "contracts_storage_proofs", "%s: contracts_storage_proofs[%d]: %v", tag, i, err)
			return
		}
		ses = append(ses, es...)
		lists = append(lists, es)
		// observation only (never a verdict, never logged): does list i belong to requested contract i?
		if i >= len(req.storage) || len(uniq) < len(req.storage) {
			continue
		}
		if mc := post.Contracts[req.storage[i].addr]; mc != nil && len(mc.Storage) > 0 {
			root := refstate.StorageRoot(mc)
			for j := range req.storage[i].keys {
				if _, err := RefVerify(&root, &req.storage[i].keys[j], es, trieHeight, refmpt.Pedersen); err != nil {
					inOrder = false
				}
			}
		}
	}
	if len(sp) >= 2 {
		if inOrder {
			c.Probe("rpc_storage_proof_lists_in_request_order")
		} else {
			c.Probe("rpc_storage_proof_lists_permuted")
		}
	}
	if !checkHashes("storage", ses, refmpt.Pedersen) {
		return
	}
	// every requested contract has ONE list that proves all its keys on its own (the answer is one node
	// mapping per contract; which position it takes is not judged - the lists may come permuted): a
	// verifier that walks a contract's own mapping must not need nodes of another contract's mapping
	for j, s := range req.storage {
		if len(uniq) < len(req.storage) {
			// all slots asked for this contract, whichever entry named them
			merged := s
			merged.keys = nil
			for _, o := range req.storage {
				if o.addr.Equal(&s.addr) {
					merged.keys = append(merged.keys, o.keys...)
				}
			}
			s = merged
		}
		mc := post.Contracts[s.addr]
		var root felt.Felt
		if mc != nil {
			root = refstate.StorageRoot(mc)
		}
		own := false
		for i := range lists {
			all := true
			for k := range s.keys {
				var want felt.Felt
				if mc != nil {
					want = mc.Storage[s.keys[k]]
				}
				r, err := RefVerify(&root, &s.keys[k], lists[i], trieHeight, refmpt.Pedersen)
				if err != nil || !r.Value.Equal(&want) {
					all = false
					break
				}
			}
			if all {
				own = true
				break
			}
		}
		c.Evals++
		if !own {
			p.fail("storage_proof_incomplete", "no_list_proves_a_contracts_slots_on_its_own", "%s: none of the %d contracts_storage_proofs lists proves all %d requested slots of contract %s (request position %d) by itself, although the union of the lists does", tag, len(lists), len(s.keys), s.addr.String(), j)
			return
		}
	}
	for _, s := range req.storage {
		mc := post.Contracts[s.addr]
		var root felt.Felt
		if mc != nil {
			root = refstate.StorageRoot(mc)
		} else {
			c.Probe("rpc_storage_of_absent_contract")
		}
		for i := range s.keys {
			var want felt.Felt
			if mc != nil {
				want = mc.Storage[s.keys[i]]
			}
			walk("slot", &root, &s.keys[i], ses, refmpt.Pedersen, &want)
		}
	}
}

func (p *rpcProver) genRequest(b *chaingen.Block) *proofRequest {
	t, g := p.c.T, p.w.D.Gen()
	req := &proofRequest{}
	post := p.w.M.Head().Post
	if b != nil {
		post = b.Post
	}
	pickDistinct := func(label string, pool []felt.Felt, n int) []felt.Felt {
		var out []felt.Felt
		seen := map[felt.Felt]bool{}
		for i := 0; i < n && len(pool) > 0; i++ {
			x := pool[t.Draw(label, len(pool))]
			if !seen[x] {
				seen[x] = true
				out = append(out, x)
			}
		}
		return out
	}
	// classes: declared Sierra classes (in the tree), Cairo-0 / undeclared hashes (not in the tree),
	// near misses of present keys
	var cpool []felt.Felt
	known := map[felt.Felt]bool{}
	for _, blk := range append(append([]*chaingen.Block(nil), p.w.M.Chain...), p.w.M.Reverted...) {
		for h := range blk.Classes {
			known[h] = true
		}
	}
	cpool = append(cpool, refstate.SortedFelts(known)...)
	for _, h := range refstate.SortedFelts(post.ClassLeaves()) {
		cpool = append(cpool, h, flipBit(&h, []int{0, 1, 100, 250}[t.Draw("rpc.class.flip", 4)]))
	}
	cpool = append(cpool, felt.FromUint64[felt.Felt](0xabc), felt.Zero)
	req.classes = pickDistinct("rpc.class", cpool, t.Draw("rpc.nclasses", 4))
	// contracts
	apool := append(append([]felt.Felt(nil), g.Addrs...), felt.One, felt.FromUint64[felt.Felt](2), felt.FromUint64[felt.Felt](0x999001), felt.Zero)
	for _, a := range refstate.SortedFelts(post.Contracts) {
		apool = append(apool, a, flipBit(&a, []int{0, 1, 100, 250}[t.Draw("rpc.addr.flip", 4)]))
	}
	req.contracts = pickDistinct("rpc.contract", apool, t.Draw("rpc.ncontracts", 4))
	// storage
	deployed := refstate.SortedFelts(post.Contracts)
	spool := append(append([]felt.Felt(nil), deployed...), deployed...)
	spool = append(spool, g.Addrs[t.Draw("rpc.saddr", len(g.Addrs))])
	for _, a := range pickDistinct("rpc.storage.contract", spool, t.Draw("rpc.nstorage", 3)) {
		kpool := append([]felt.Felt(nil), g.Slots...)
		if mc := post.Contracts[a]; mc != nil {
			for _, s := range refstate.SortedFelts(mc.Storage) {
				kpool = append(kpool, s, s, flipBit(&s, []int{0, 1, 100, 250}[t.Draw("rpc.slot.flip", 4)]))
			}
		}
		keys := pickDistinct("rpc.slot", kpool, 1+t.Draw("rpc.nslots", 3))
		req.storage = append(req.storage, struct {
			addr felt.Felt
			keys []felt.Felt
		}{a, keys})
	}
	if len(req.storage) > 0 && t.Draw("rpc.storage.same.contract.again", 5) == 4 {
		// the same contract named in a further entry, with other slots
		a := req.storage[t.Draw("rpc.storage.again.which", len(req.storage))].addr
		kpool := append([]felt.Felt(nil), g.Slots...)
		if mc := post.Contracts[a]; mc != nil {
			kpool = append(kpool, refstate.SortedFelts(mc.Storage)...)
		}
		req.storage = append(req.storage, struct {
			addr felt.Felt
			keys []felt.Felt
		}{a, pickDistinct("rpc.slot.again", kpool, 1+t.Draw("rpc.nslots.again", 3))})
	}
	return req
}

func (p *rpcProver) round() {
	c, t, m := p.c, p.c.T, p.w.M
	n := len(m.Chain)
	if n == 0 {
		return
	}
	p.rounds++
	head := m.Head()
	var id blockID
	switch k := t.Draw("rpc.id", 10); {
	case k <= 3:
		id = blockID{json: `"latest"`, kind: "latest", block: head}
	case k == 4:
		id = blockID{json: fmt.Sprintf(`{"block_number":%d}`, n-1), kind: "head_number", block: head}
	case k == 5:
		id = blockID{json: fmt.Sprintf(`{"block_hash":%q}`, fhex(head.B.Hash)), kind: "head_hash", block: head}
	case k == 6 && n >= 2:
		i := t.Draw("rpc.old", n-1)
		if t.Draw("rpc.old.byhash", 2) == 0 {
			id = blockID{json: fmt.Sprintf(`{"block_number":%d}`, i), kind: "older_number", block: m.Chain[i]}
		} else {
			id = blockID{json: fmt.Sprintf(`{"block_hash":%q}`, fhex(m.Chain[i].B.Hash)), kind: "older_hash", block: m.Chain[i]}
		}
	case k == 7:
		id = blockID{json: fmt.Sprintf(`{"block_number":%d}`, n+t.Draw("rpc.future", 3)), kind: "number_absent"}
	case k == 8:
		if rv := p.w.RevertedOnly(); len(rv) > 0 {
			id = blockID{json: fmt.Sprintf(`{"block_hash":%q}`, fhex(rv[t.Draw("rpc.rev", len(rv))].B.Hash)), kind: "hash_reverted"}
		} else {
			id = blockID{json: `"latest"`, kind: "latest", block: head}
		}
	default:
		id = blockID{json: `"l1_accepted"`, kind: "l1_accepted", newOnly: true}
		if m.L1Head != nil {
			id.block = m.Chain[min(int(m.L1Head.BlockNumber), n-1)]
		}
	}
	if id.json == "" {
		id = blockID{json: `"latest"`, kind: "latest", block: head}
	}
	req := p.genRequest(id.block)
	params := req.params(id.json)
	c.Logf("getStorageProof %s", params)
	c.Probe("rpc_id_" + id.kind)
	for _, v := range Versions {
		if id.newOnly && v == "v0_8" {
			continue
		}
		r := p.w.Call(v, "starknet_getStorageProof", params)
		tag := fmt.Sprintf("%s starknet_getStorageProof %s", v, params)
		switch {
		case r.IsErr() && id.block == nil:
			if r.ErrCode != codeBlockNotFound && !(id.kind == "l1_accepted" && r.ErrCode == codeStorageProofNotSupported) {
				p.fail("storage_proof_error", id.kind+"/"+codeStr(r.ErrCode), "%s: the chain has no such block; expected BLOCK_NOT_FOUND, got %s", tag, r.Brief())
			}
		case r.IsErr() && r.ErrCode == codeStorageProofNotSupported && (id.block != head || id.kind == "l1_accepted"):
			c.Probe("rpc_proof_not_supported_for_old_block")
		case r.IsErr():
			p.fail("storage_proof_error", id.kind+"/"+codeStr(r.ErrCode), "%s: no proof served for block %d (head %d): %s", tag, id.block.B.Number, head.B.Number, r.Brief())
		case id.block == nil:
			p.fail("storage_proof_for_unknown_block", id.kind, "%s: a proof was served although the chain has no such block", tag)
		default:
			p.served++
			p.verify(tag, r.Result, id.block, req)
		}
	}
}

// racedRound: a reorg overtakes ONE starknet_getStorageProof request for the head right after one of
// its database reads (the reader is in the middle of the handler; the writer reverts the head and
// possibly stores another block). The request may be refused; if a proof is served it names the block
// it is served for (global_roots.block_hash) and must verify against THAT block - the old head or the
// new one - like any other answer.
func (p *rpcProver) racedRound() {
	c, t, m := p.c, p.c.T, p.w.M
	if len(m.Chain) < 2 {
		return
	}
	oldHead := m.Head()
	req := p.genRequest(oldHead)
	params := req.params(`"latest"`)
	v := []string{"v0_10", "v0_9"}[t.Draw("rpc.race.version", 2)]
	at, reads, done := 1+t.Draw("rpc.race.after.read", 12), 0, false
	restore := t.Draw("rpc.race.store", 2) == 1
	fdb := p.w.N.FDB
	fdb.Plan.AfterRead = func(string) {
		reads++
		if done || reads < at {
			return
		}
		// The writer is played on the reader's goroutine: it can only cut in where the reader holds no
		// lock the writer needs. The trie databases read nodes under their own RWMutex (a real writer
		// would wait there), so reads issued from inside them are no preemption points.
		var pcs [48]uintptr
		frames := runtime.CallersFrames(pcs[:runtime.Callers(2, pcs[:])])
		for {
			f, more := frames.Next()
			if strings.Contains(f.Function, "/triedb/") {
				return
			}
			if !more {
				break
			}
		}
		done = true
		fdb.Plan.AfterRead = nil
		c.Logf("  reorg overtakes the request after its read %d", reads)
		p.w.Revert()
		if restore {
			p.w.Store()
		}
		c.Fault("reorg_inside_proof_request")
	}
	c.Logf("getStorageProof %s on %s raced by a reorg", params, v)
	r := p.w.Call(v, "starknet_getStorageProof", params)
	fdb.Plan.AfterRead = nil
	if !done {
		return
	}
	if r.IsErr() {
		c.Probe("rpc_raced_request_refused")
		return
	}
	// What a request overtaken by a reorg answers is NOT judged: the handlers read the head header and
	// the state in separate steps from the live database, so such an answer may name one head and carry
	// data of the other (seen on the unchanged tree; the statement does not quantify over a writer
	// racing the request, see DESIGN section 13 on C07-7). The raced request is kept as a disturbance:
	// the rounds that follow are judged as always, so anything it leaves behind (caches) shows there.
	c.Probe("rpc_raced_request_answered_unjudged")
}

func rpcProofRun(c *sim.Ctx, k *Collector) {
	w := NewWorld(c)
	defer w.Close()
	p := &rpcProver{w: w, k: k, c: c}
	t := c.T
	w.D.Opts().MaxDiff = 4 + t.Draw("rpc.max.diff", 10)
	maxBlocks := 2 + t.Draw("max.blocks", 6)
	steps := 3 + t.Draw("steps", 10)
	for s := 0; s < steps; s++ {
		n := len(w.M.Chain)
		op := t.Draw("op", 12)
		switch {
		case op <= 6 || n == 0:
			if n >= maxBlocks {
				continue
			}
			w.Store()
		case op <= 8:
			w.Revert()
		case op == 9:
			w.Restart(t.Draw("restart.graceful", 2) == 1)
		default:
			w.SetL1Head(uint64(t.Draw("l1", n+2)))
		}
		if t.Draw("rpc.query", 3) != 0 {
			p.round()
		}
		if t.Draw("rpc.raced", 5) == 4 {
			p.racedRound()
		}
	}
	p.round()
	c.Nontrivial = p.served > 0 && (w.Reverts+w.Restarts) > 0
	c.Sample = map[string]any{"blocks": len(w.M.Chain), "reverted": len(w.M.Reverted), "proof_rounds": p.rounds, "proofs_verified": p.served}
}
