package rpcworld

import (
	"testing"

	"jsim/sim"
)

func TestWorker(t *testing.T) {
	sim.WorkerMain(t, map[string]sim.Harness{
		"C08": C08,
		"C09": C09RPC,
		"C10": C10,
	}, map[string]sim.Options{
		"C08": {PanicIsViolation: true},
		"C09": {PanicIsViolation: true},
		"C10": {PanicIsViolation: true},
	})
}
