package rpcworld

import (
	"testing"

	"jsim/sim"
)

func TestWorker(t *testing.T) {
	sim.WorkerMain(t, map[string]sim.Harness{
		"C08": C08,
		"C10": C10,
	}, map[string]sim.Options{
		"C08": {PanicIsViolation: true},
		"C10": {PanicIsViolation: true},
	})
}
