// Package rpcworld is the rpc world of the simulator (DESIGN.md §2.6): the REAL method tables of
// rpc.New(...) for v0.8, v0.9 and v0.10 mounted on three real jsonrpc.Server instances that read one
// node of the node world (real blockchain.Blockchain on memory or Pebble-on-MemFS, both state
// backends). Requests are sent as BYTES through Server.HandleReader; no socket is involved.
//
// Properties decided here: C08 (read methods answer from the held chain) and C10 (Merkle proofs
// verify and cannot be forged; trie level and starknet_getStorageProof).
package rpcworld

import (
	"bytes"
	"context"
	"encoding/json"
	"errors"
	"fmt"
	"sort"
	"strings"

	"github.com/NethermindEth/juno/core"
	"github.com/NethermindEth/juno/core/felt"
	"github.com/NethermindEth/juno/core/pending"
	_ "github.com/NethermindEth/juno/encoder/registry"
	"github.com/NethermindEth/juno/feed"
	"github.com/NethermindEth/juno/jsonrpc"
	"github.com/NethermindEth/juno/rpc"
	rpcv10 "github.com/NethermindEth/juno/rpc/v10"
	rpcv8 "github.com/NethermindEth/juno/rpc/v8"
	rpcv9 "github.com/NethermindEth/juno/rpc/v9"
	junosync "github.com/NethermindEth/juno/sync"
	"github.com/NethermindEth/juno/sync/preconfirmed"
	"github.com/NethermindEth/juno/utils/log"

	"jsim/chaingen"
	"jsim/faultdb"
	"jsim/harness/node"
	"jsim/sim"
)

// ---- stub sync reader --------------------------------------------------------------------------

// stubSync is the sync.Reader seam: "no pre-confirmed / pending data", highest block = local head.
// The read methods of v0.9/v0.10 only ever call PreConfirmedChain(); v0.8 synthesises its pending
// block from the chain itself and asks nothing.
type stubSync struct{ w *World }

func (s stubSync) StartingBlockHeader() (*core.Header, error) {
	return nil, errors.New("jsim: no sync in progress")
}

func (s stubSync) HighestBlockHeader() *core.Header {
	if h := s.w.M.Head(); h != nil {
		return h.B.Header
	}
	return nil
}

func (s stubSync) SubscribeNewHeads() junosync.NewHeadSubscription {
	return junosync.NewHeadSubscription{Subscription: feed.New[*core.Block]().Subscribe()}
}

func (s stubSync) SubscribeReorg() junosync.ReorgSubscription {
	return junosync.ReorgSubscription{Subscription: feed.New[*junosync.ReorgBlockRange]().Subscribe()}
}

func (s stubSync) SubscribePreConfirmed() junosync.PreConfirmedDataSubscription {
	return junosync.PreConfirmedDataSubscription{Subscription: feed.New[*pending.PreConfirmed]().Subscribe()}
}

func (s stubSync) PreConfirmedChain() (preconfirmed.ChainReader, error) {
	return preconfirmed.ChainReader{}, pending.ErrPreConfirmedNotFound
}

// ---- the world -----------------------------------------------------------------------------------

var Versions = []string{"v0_8", "v0_9", "v0_10"}

// World is one node with the three API versions mounted on it.
type World struct {
	c    *sim.Ctx
	N    *node.Node
	M    *node.Model
	D    *node.ChainDriver
	srv  map[string]*jsonrpc.Server
	reqN int

	Reverts, Restarts, L1Moves int
}

func NewWorld(c *sim.Ctx) *World {
	t := c.T
	usePebble := t.Draw("pebble", 4) == 3
	newState := t.Draw("newstate", 2) == 1
	w := &World{c: c, M: &node.Model{}, D: node.NewChainDriver(c)}
	w.N = node.OpenNode(c, node.NewStore(c, usePebble), newState, "N")
	w.mount()
	c.Logf("config newstate=%v pebble=%v opts=%+v", newState, usePebble, *w.D.Opts())
	if usePebble {
		c.Fault("backend_pebble")
	} else {
		c.Fault("backend_memory")
	}
	if newState {
		c.Fault("state_backend_new")
	} else {
		c.Fault("state_backend_legacy")
	}
	return w
}

func (w *World) Close() { w.N.St.Close() }

// mount builds rpc.New on the CURRENT Blockchain instance and registers the three real method tables.
func (w *World) mount() {
	logger := log.NewNopZapLogger()
	h := rpc.New(w.N.BC, stubSync{w}, nil, "jsim", logger, w.N.Net)
	w.srv = map[string]*jsonrpc.Server{}
	type tbl struct {
		name    string
		methods []jsonrpc.Method
		val     jsonrpc.Validator
	}
	m8, _ := h.MethodsV0_8()
	m9, _ := h.MethodsV0_9()
	m10, _ := h.MethodsV0_10()
	for _, tb := range []tbl{{"v0_8", m8, rpcv8.Validator()}, {"v0_9", m9, rpcv9.Validator()}, {"v0_10", m10, rpcv10.Validator()}} {
		s := jsonrpc.NewServer(1, logger).WithValidator(tb.val)
		w.c.Must(s.RegisterMethods(tb.methods...), "register methods "+tb.name)
		w.srv[tb.name] = s
	}
}

// Resp is a parsed JSON-RPC response.
type Resp struct {
	Raw     []byte
	HasRes  bool
	Result  any
	ErrCode int
	ErrMsg  string
	ErrData any
}

func (r *Resp) IsErr() bool { return !r.HasRes }

func (r *Resp) Brief() string {
	if r.HasRes {
		s := string(r.Raw)
		if len(s) > 300 {
			s = s[:300] + "..."
		}
		return s
	}
	return fmt.Sprintf("error %d %q data=%v", r.ErrCode, r.ErrMsg, r.ErrData)
}

// Call sends one request, as bytes, through the real server of the given API version.
// params is a JSON object (named parameters) or array (positional), already rendered.
func (w *World) Call(version, method, params string) *Resp {
	w.reqN++
	w.c.Evals++
	req := fmt.Sprintf(`{"jsonrpc":"2.0","id":%d,"method":%q,"params":%s}`, w.reqN, method, params)
	out, _, err := w.srv[version].HandleReader(context.Background(), strings.NewReader(req))
	if err != nil {
		w.c.Fail("transport", version+"/"+method, "%s %s: HandleReader returned an error: %v", version, req, err)
	}
	var env struct {
		JSONRPC string           `json:"jsonrpc"`
		ID      *json.RawMessage `json:"id"`
		Result  *json.RawMessage `json:"result"`
		Error   *struct {
			Code    int    `json:"code"`
			Message string `json:"message"`
			Data    any    `json:"data"`
		} `json:"error"`
	}
	dec := json.NewDecoder(bytes.NewReader(out))
	dec.UseNumber()
	if err := dec.Decode(&env); err != nil {
		w.c.Fail("malformed_response", version+"/"+method, "%s %s: response is not a JSON object: %v: %q", version, req, err, trunc(out))
	}
	if env.ID == nil || string(*env.ID) != fmt.Sprint(w.reqN) {
		w.c.Fail("malformed_response", version+"/"+method+"/id", "%s %s: response id does not match: %q", version, req, trunc(out))
	}
	if (env.Result == nil) == (env.Error == nil) {
		w.c.Fail("malformed_response", version+"/"+method+"/result_xor_error", "%s %s: response must carry exactly one of result/error: %q", version, req, trunc(out))
	}
	r := &Resp{Raw: out}
	if env.Error != nil {
		r.ErrCode, r.ErrMsg, r.ErrData = env.Error.Code, env.Error.Message, env.Error.Data
		return r
	}
	r.HasRes = true
	d2 := json.NewDecoder(bytes.NewReader(*env.Result))
	d2.UseNumber()
	if err := d2.Decode(&r.Result); err != nil {
		w.c.Fail("malformed_response", version+"/"+method+"/result", "%s %s: result does not parse: %v", version, req, err)
	}
	return r
}

func trunc(b []byte) string {
	if len(b) > 400 {
		return string(b[:400]) + "..."
	}
	return string(b)
}

// ---- history operations ----------------------------------------------------------------------------

// short renders a felt for the trace (full value: the trace is what a replay is compared with).
func short(f interface{ String() string }) string { return f.String() }

func (w *World) Store() *chaingen.Block {
	b := w.D.Next(w.M.Head())
	w.c.Logf("store block %d v%s hash=%s txs=%d diff=%s", b.B.Number, b.Version, short(b.B.Hash), len(b.B.Transactions), node.DiffString(b))
	if err := w.N.StoreBlock(b); err != nil {
		w.c.Fail("valid_block_rejected", "store", "valid block %d (v%s) rejected: %v", b.B.Number, b.Version, err)
	}
	w.M.Chain = append(w.M.Chain, b)
	return b
}

func (w *World) Revert() {
	h := w.M.Head()
	w.c.Logf("revert block %d", h.B.Number)
	if err := w.N.BC.RevertHead(); err != nil {
		w.c.Fail("revert_failed", "revert", "RevertHead of stored block %d failed: %v", h.B.Number, err)
	}
	w.M.Chain = w.M.Chain[:len(w.M.Chain)-1]
	w.M.Reverted = append(w.M.Reverted, h)
	w.D.NewFork()
	w.D.RewindTo(w.M.Head())
	w.c.Fault("revert")
	w.Reverts++
}

func (w *World) Restart(graceful bool) {
	w.c.Logf("restart graceful=%v", graceful)
	w.N = w.N.Restart(graceful)
	w.mount()
	if graceful {
		w.c.Fault("graceful_restart")
	} else {
		w.c.Fault("ungraceful_restart")
	}
	w.Restarts++
}

// SetL1Head records an L1 head at block number n (which may lie above the local head).
func (w *World) SetL1Head(n uint64) {
	var h *core.L1Head
	if int(n) < len(w.M.Chain) {
		b := w.M.Chain[n]
		h = &core.L1Head{BlockNumber: n, BlockHash: b.B.Hash, StateRoot: b.B.GlobalStateRoot}
	} else {
		h = &core.L1Head{BlockNumber: n, BlockHash: felt.NewFromUint64[felt.Felt](0x11ead0000 + n), StateRoot: felt.NewFromUint64[felt.Felt](0x11ead1000 + n)}
	}
	w.c.Logf("set L1 head to block %d (local chain length %d)", n, len(w.M.Chain))
	w.c.Must(w.N.BC.SetL1Head(h), "SetL1Head")
	w.M.L1Head = h
	w.L1Moves++
}

// SetL1HeadFailing attempts to record an L1 head while the database write fails (injected): the call
// must report the error and nothing is recorded - finality keeps following the recorded head.
func (w *World) SetL1HeadFailing(n uint64) {
	h := &core.L1Head{BlockNumber: n, BlockHash: felt.NewFromUint64[felt.Felt](0x11ead0000 + n), StateRoot: felt.NewFromUint64[felt.Felt](0x11ead1000 + n)}
	if int(n) < len(w.M.Chain) {
		b := w.M.Chain[n]
		h = &core.L1Head{BlockNumber: n, BlockHash: b.B.Hash, StateRoot: b.B.GlobalStateRoot}
	}
	w.c.Logf("set L1 head to block %d while the database write fails", n)
	w.N.FDB.Plan.FailWriteAt = w.N.FDB.Writes + 1
	err := w.N.BC.SetL1Head(h)
	w.N.FDB.Plan.FailWriteAt = 0
	if err == nil {
		// nothing was written through the wrapper (should not happen): the head is recorded
		w.M.L1Head = h
		w.L1Moves++
		return
	}
	if !faultdb.IsInjected(err) {
		w.c.Broken("SetL1Head with a failing write: %v", err)
	}
	w.N.FDB.Fired = nil
	w.c.Fault("l1head_write_error")
}

// RevertedOnly: reverted blocks whose hash is not canonical (sorted by insertion order, stable).
func (w *World) RevertedOnly() []*chaingen.Block {
	canon := map[felt.Felt]bool{}
	for _, b := range w.M.Chain {
		canon[*b.B.Hash] = true
	}
	var out []*chaingen.Block
	for _, b := range w.M.Reverted {
		if !canon[*b.B.Hash] {
			out = append(out, b)
		}
	}
	return out
}

// ---- collected mismatches ----------------------------------------------------------------------------

// An oracle mismatch does not disturb the world, so the run goes on and collects every mismatch;
// at the end one of the distinct keys is reported (tape-chosen, 0 = first in sorted order). This
// keeps one frequent mismatch from hiding every other check of the run.
type mismatch struct{ class, key, detail string }

type Collector struct {
	c    *sim.Ctx
	list []mismatch
	seen map[string]bool
}

func NewCollector(c *sim.Ctx) *Collector { return &Collector{c: c, seen: map[string]bool{}} }

func (k *Collector) Add(class, key, format string, a ...any) {
	id := class + ":" + key
	if k.seen[id] {
		return
	}
	k.seen[id] = true
	k.list = append(k.list, mismatch{class, key, fmt.Sprintf(format, a...)})
}

func (k *Collector) Len() int { return len(k.list) }

// Report fails the run with one collected mismatch (if any).
func (k *Collector) Report() {
	if len(k.list) == 0 {
		return
	}
	sort.SliceStable(k.list, func(i, j int) bool {
		if k.list[i].class != k.list[j].class {
			return k.list[i].class < k.list[j].class
		}
		return k.list[i].key < k.list[j].key
	})
	i := k.c.T.Draw("report.pick", len(k.list))
	m := k.list[i]
	k.c.Fail(m.class, m.key, "%s", m.detail)
}
