// Package sim is the run/worker framework shared by all harnesses: the per-run
// context (tape, trace, fault and probe counters, violation reporting), the
// worker loop that executes many seeded runs in one process, in-process
// determinism re-check, tape minimisation and replay.
package sim

import (
	"encoding/json"
	"fmt"
	"os"
	"runtime"
	"runtime/debug"
	"sort"
	"strconv"
	"strings"
	"syscall"
	"testing"
	"testing/synctest"

	"jsim/tape"
)

// Violation is a property violation found by an oracle.
type Violation struct {
	Class  string `json:"class"`  // stable category, used by the minimiser
	Key    string `json:"key"`    // class + specific signature, used by known-findings
	Detail string `json:"detail"` // human readable
}

type violationPanic struct{ v Violation }
type machineryPanic struct{ msg string }

// Ctx is the context of one simulated run.
type Ctx struct {
	T     *tape.Tape
	Prop  string
	Tier  string
	Seed  uint64
	Knobs map[string]string // harness specific env knobs (JSIM_KNOB_x)

	hash         uint64
	nEvents      int
	head         []string
	tail         []string
	Faults       map[string]int
	Probes       map[string]int
	Evals        int   // sub-evaluations (recoveries, queries...) beyond the run itself
	Nontrivial   bool  // set by the harness when the run is non-trivial by its rule
	SimNs        int64 // simulated time covered
	Inconclusive int
	Sample       any // optional structured description of this run's case
	Quiet        bool
}

const headCap, tailCap = 250, 150

func newCtx(prop, tier string, seed uint64, t *tape.Tape) *Ctx {
	return &Ctx{
		T: t, Prop: prop, Tier: tier, Seed: seed, hash: 0xcbf29ce484222325,
		Faults: map[string]int{}, Probes: map[string]int{}, Knobs: knobs(),
	}
}

func knobs() map[string]string {
	m := map[string]string{}
	for _, e := range os.Environ() {
		if strings.HasPrefix(e, "JSIM_KNOB_") {
			kv := strings.SplitN(e[len("JSIM_KNOB_"):], "=", 2)
			if len(kv) == 2 {
				m[kv[0]] = kv[1]
			}
		}
	}
	return m
}

// Logf records one event of the run: it is hashed into the trace hash (the
// determinism fingerprint and the "distinct interleaving" measure) and kept for
// the replay file. It never draws from the tape and never reads a clock.
func (c *Ctx) Logf(format string, a ...any) {
	s := fmt.Sprintf(format, a...)
	for i := 0; i < len(s); i++ {
		c.hash ^= uint64(s[i])
		c.hash *= 0x100000001b3
	}
	c.hash ^= 0xff
	c.hash *= 0x100000001b3
	c.nEvents++
	if len(c.head) < headCap {
		c.head = append(c.head, s)
	} else {
		if len(c.tail) >= tailCap {
			c.tail = c.tail[1:]
		}
		c.tail = append(c.tail, s)
	}
}

// note appends an unhashed line to the kept event list.
func (c *Ctx) note(s string) {
	if len(c.head) < headCap {
		c.head = append(c.head, s)
	} else {
		if len(c.tail) >= tailCap {
			c.tail = c.tail[1:]
		}
		c.tail = append(c.tail, s)
	}
}

func (c *Ctx) TraceHash() uint64 { return c.hash }

func (c *Ctx) EventList() []string {
	out := append([]string(nil), c.head...)
	if c.nEvents > len(c.head)+len(c.tail) {
		out = append(out, fmt.Sprintf("... %d events elided ...", c.nEvents-len(c.head)-len(c.tail)))
	}
	return append(out, c.tail...)
}

func (c *Ctx) Fault(kind string) { c.Faults[kind]++ }
func (c *Ctx) Probe(name string) { c.Probes[name]++ }

// Fail reports a property violation and ends the run.
func (c *Ctx) Fail(class, key, format string, a ...any) {
	d := fmt.Sprintf(format, a...)
	// class and key are part of the trace (and its hash); the free-text detail is kept for the
	// replay file but not hashed (it may legitimately contain values such as fake-clock times
	// that differ between the first execution and a re-execution later in the same bubble)
	c.Logf("VIOLATION %s %s", class, key)
	c.note("  detail: " + d)
	panic(violationPanic{Violation{Class: class, Key: class + ":" + key, Detail: d}})
}

// Broken reports trouble in the machinery itself (never a violation).
func (c *Ctx) Broken(format string, a ...any) {
	panic(machineryPanic{fmt.Sprintf(format, a...)})
}

// Must is Broken on a non-nil error.
func (c *Ctx) Must(err error, what string) {
	if err != nil {
		panic(machineryPanic{what + ": " + err.Error()})
	}
}

// Harness is one property's simulated run.
type Harness func(c *Ctx)

// RunResult is what one run produced.
type RunResult struct {
	Seed       uint64         `json:"seed"`
	TraceHash  uint64         `json:"trace_hash"`
	Violation  *Violation     `json:"violation,omitempty"`
	Machinery  string         `json:"machinery,omitempty"`
	Tape       []uint64       `json:"tape,omitempty"`
	Events     []string       `json:"events,omitempty"`
	Faults     map[string]int `json:"faults,omitempty"`
	Probes     map[string]int `json:"probes,omitempty"`
	Sample     any            `json:"sample,omitempty"`
	TapeLen    int            `json:"tape_len"`
	Evals      int            `json:"evals"`
	Nontrivial bool           `json:"nontrivial"`
	SimNs      int64          `json:"sim_ns,omitempty"`
	Inconcl    int            `json:"inconclusive,omitempty"`
}

// PanicInRepo: a panic whose innermost non-runtime frame is in juno's code is
// treated as a violation of class "panic" by harnesses that opt in.
type Options struct {
	Bubble           bool // run the whole worker inside one synctest bubble
	PanicIsViolation bool
}

func runOne(h Harness, c *Ctx, opt Options) (res RunResult) {
	defer func() {
		if r := recover(); r != nil {
			switch p := r.(type) {
			case violationPanic:
				v := p.v
				res.Violation = &v
			case machineryPanic:
				res.Machinery = p.msg
			default:
				st := string(debug.Stack())
				fn, inRepo := panicSite(st)
				if inRepo && opt.PanicIsViolation {
					c.Logf("PANIC in juno code at %s: %v", fn, r)
					res.Violation = &Violation{Class: "panic", Key: "panic:" + fn, Detail: fmt.Sprintf("%v\n%s", r, trimStack(st))}
				} else {
					res.Machinery = fmt.Sprintf("panic: %v\n%s", r, trimStack(st))
				}
			}
		}
		res.Seed = c.Seed
		res.TraceHash = c.hash
		res.Tape = c.T.Words()
		res.TapeLen = len(res.Tape)
		res.Events = c.EventList()
		res.Faults = c.Faults
		res.Probes = c.Probes
		res.Sample = c.Sample
		res.Evals = c.Evals
		res.Nontrivial = c.Nontrivial
		res.SimNs = c.SimNs
		res.Inconcl = c.Inconclusive
	}()
	h(c)
	return
}

func trimStack(st string) string {
	lines := strings.Split(st, "\n")
	if len(lines) > 60 {
		lines = lines[:60]
	}
	return strings.Join(lines, "\n")
}

// panicSite finds the innermost frame below the panic machinery.
func panicSite(st string) (fn string, inRepo bool) {
	lines := strings.Split(st, "\n")
	seenPanic := false
	for i := 0; i+1 < len(lines); i++ {
		l := lines[i]
		if strings.HasPrefix(l, "panic(") || strings.HasPrefix(l, "runtime.gopanic") {
			seenPanic = true
			continue
		}
		if !seenPanic || strings.HasPrefix(l, "\t") || strings.HasPrefix(l, "goroutine ") || l == "" {
			continue
		}
		loc := strings.TrimSpace(lines[i+1])
		if strings.HasPrefix(l, "runtime.") || strings.Contains(loc, "/src/runtime/") {
			continue
		}
		name := l
		if k := strings.LastIndex(name, "("); k > 0 {
			name = name[:k]
		}
		if strings.HasPrefix(loc, "/repo/") {
			return name, true
		}
		// a check built against a scratch copy of the repository (JSIM_REPO)
		if alt := os.Getenv("JSIM_REPO"); alt != "" && strings.HasPrefix(loc, strings.TrimRight(alt, "/")+"/") {
			return name, true
		}
		return name, false
	}
	return "?", false
}

// Exec runs harness h once on a fresh generating tape.
func Exec(h Harness, prop, tier string, seed uint64, opt Options) RunResult {
	t := tape.New(seed)
	return runOne(h, newCtx(prop, tier, seed, t), opt)
}

// ExecTape runs harness h once on a recorded tape.
func ExecTape(h Harness, prop, tier string, seed uint64, words []uint64, opt Options) RunResult {
	t := tape.Replay(words)
	return runOne(h, newCtx(prop, tier, seed, t), opt)
}

// ---------------------------------------------------------------------------------------------
// Minimiser: delta debugging on the tape, keeping a candidate only if the same violation class
// persists.

// Minimise shrinks the tape while the same violation (class and key) persists: keeping only the
// class would let a new violation drift into a different one of the same class - e.g. into a
// listed known finding, which would then hide it.
func Minimise(h Harness, prop, tier string, seed uint64, words []uint64, class, key string, opt Options, budgetMs int64) ([]uint64, RunResult, int) {
	start := nowMs()
	tries := 0
	best := append([]uint64(nil), words...)
	bestRes := ExecTape(h, prop, tier, seed, best, opt)
	same := func(w []uint64) (RunResult, bool) {
		tries++
		r := ExecTape(h, prop, tier, seed, w, opt)
		return r, r.Violation != nil && r.Violation.Class == class && r.Violation.Key == key
	}
	timeUp := func() bool { return nowMs()-start > budgetMs }
	// The replay tape the run actually consumed may be shorter than the input.
	trim := func(r RunResult, w []uint64) []uint64 {
		if r.TapeLen < len(w) {
			return w[:r.TapeLen]
		}
		return w
	}
	best = trim(bestRes, best)
	improved := true
	for improved && !timeUp() {
		improved = false
		// 1. truncate from the end (exhausted tape yields zeros)
		for cut := len(best) / 2; cut >= 1 && !timeUp(); cut /= 2 {
			for len(best) > cut {
				cand := append([]uint64(nil), best[:len(best)-cut]...)
				if r, ok := same(cand); ok {
					best, bestRes, improved = trim(r, cand), r, true
				} else {
					break
				}
				if timeUp() {
					break
				}
			}
		}
		// 2. delete chunks
		for chunk := len(best) / 2; chunk >= 1 && !timeUp(); chunk /= 2 {
			for i := 0; i+chunk <= len(best) && !timeUp(); {
				cand := append(append([]uint64(nil), best[:i]...), best[i+chunk:]...)
				if r, ok := same(cand); ok {
					best, bestRes, improved = trim(r, cand), r, true
				} else {
					i += chunk
				}
			}
		}
		// 3. zero / halve single words
		for i := 0; i < len(best) && !timeUp(); i++ {
			if best[i] == 0 {
				continue
			}
			for _, nv := range []uint64{0, best[i] / 2, best[i] - 1} {
				if nv >= best[i] {
					continue
				}
				cand := append([]uint64(nil), best...)
				cand[i] = nv
				if r, ok := same(cand); ok {
					best, bestRes, improved = trim(r, cand), r, true
					break
				}
			}
		}
	}
	return best, bestRes, tries
}

func nowMs() int64 {
	var tv syscall.Timeval
	_ = syscall.Gettimeofday(&tv)
	return tv.Sec*1000 + int64(tv.Usec)/1000
}

// ---------------------------------------------------------------------------------------------
// Worker protocol (see /verif/check).

type ViolationReport struct {
	Seed       uint64    `json:"seed"`
	Violation  Violation `json:"violation"`
	Tape       []uint64  `json:"tape"`
	OrigTape   []uint64  `json:"orig_tape"`
	Events     []string  `json:"events"`
	TraceHash  uint64    `json:"trace_hash"`
	MinTries   int       `json:"min_tries"`
	GOMAXPROCS int       `json:"gomaxprocs"`
	ReplayedOK bool      `json:"replayed_ok"`
	// ScheduleDependent is non-empty when the same tape does not always give the same execution
	ScheduleDependent string `json:"schedule_dependent,omitempty"`
}

type WorkerOut struct {
	Prop         string            `json:"prop"`
	Worker       int               `json:"worker"`
	GOMAXPROCS   int               `json:"gomaxprocs"`
	Runs         int               `json:"runs"`
	Evals        int               `json:"evals"`
	Nontrivial   []uint64          `json:"nontrivial_hashes"`
	Distinct     int               `json:"distinct_traces"`
	Faults       map[string]int    `json:"faults"`
	Probes       map[string]int    `json:"probes"`
	SimNs        int64             `json:"sim_ns"`
	Inconclusive int               `json:"inconclusive"`
	Samples      []RunResult       `json:"samples"`
	Violations   []ViolationReport `json:"violations"`
	Machinery    []string          `json:"machinery"`
	WallMs       int64             `json:"wall_ms"`
	Hashes       map[string]uint64 `json:"hashes,omitempty"` // seed -> trace hash (selftest)
	TapeWords    int               `json:"tape_words"`
}

type ReplayFile struct {
	Property   string            `json:"property"`
	Harness    string            `json:"harness"`
	Tier       string            `json:"tier"`
	Seed       uint64            `json:"seed"`
	GOMAXPROCS int               `json:"gomaxprocs"`
	Knobs      map[string]string `json:"knobs,omitempty"`
	Tape       []uint64          `json:"tape"`
	OrigTape   []uint64          `json:"orig_tape,omitempty"`
	Violation  Violation         `json:"violation"`
	Trace      []string          `json:"trace"`
	TraceHash  uint64            `json:"trace_hash"`
}

func envInt(name string, def int) int {
	if v := os.Getenv(name); v != "" {
		if n, err := strconv.Atoi(v); err == nil {
			return n
		}
	}
	return def
}

func envU64(name string, def uint64) uint64 {
	if v := os.Getenv(name); v != "" {
		if n, err := strconv.ParseUint(v, 10, 64); err == nil {
			return n
		}
		if n, err := strconv.ParseInt(v, 10, 64); err == nil {
			return uint64(n)
		}
	}
	return def
}

// WorkerMain is called from the single Test function of a harness package.
// Environment:
//
//	JSIM_PROP     property id (selects the harness)
//	JSIM_MODE     run | replay | selftest
//	JSIM_SEED     base seed (VERIF_SEED)
//	JSIM_TIER     quick | thorough
//	JSIM_WORKER / JSIM_NWORKERS
//	JSIM_BUDGET_MS wall budget, JSIM_MAXRUNS run cap
//	JSIM_OUT      output JSON path
//	JSIM_REPLAY   replay file (mode replay)
func WorkerMain(t *testing.T, reg map[string]Harness, opts map[string]Options) {
	prop := os.Getenv("JSIM_PROP")
	if prop == "" {
		t.Skip("JSIM_PROP not set; this binary is driven by /verif/check")
	}
	h, ok := reg[prop]
	if !ok {
		fmt.Fprintf(os.Stderr, "unknown property %q in this harness binary\n", prop)
		os.Exit(2)
	}
	opt := opts[prop]
	if gm := envInt("JSIM_GOMAXPROCS", 0); gm > 0 {
		runtime.GOMAXPROCS(gm)
	}
	body := func() { workerBody(prop, h, opt) }
	if opt.Bubble {
		func() {
			defer func() {
				if r := recover(); r != nil {
					fmt.Fprintf(os.Stderr, "bubble ended with panic: %v\n", r)
					os.Exit(2)
				}
			}()
			synctest.Test(t, func(t *testing.T) { body() })
		}()
	} else {
		body()
	}
}

func workerBody(prop string, h Harness, opt Options) {
	mode := os.Getenv("JSIM_MODE")
	tier := os.Getenv("JSIM_TIER")
	if tier == "" {
		tier = "quick"
	}
	out := os.Getenv("JSIM_OUT")
	switch mode {
	case "replay":
		var rf ReplayFile
		b, err := os.ReadFile(os.Getenv("JSIM_REPLAY"))
		if err == nil {
			err = json.Unmarshal(b, &rf)
		}
		if err != nil {
			fmt.Fprintf(os.Stderr, "cannot read replay file: %v\n", err)
			os.Exit(2)
		}
		r := ExecTape(h, prop, rf.Tier, rf.Seed, rf.Tape, opt)
		writeJSON(out, r)
		return
	}
	base := envU64("JSIM_SEED", 1)
	w := envInt("JSIM_WORKER", 0)
	budget := int64(envInt("JSIM_BUDGET_MS", 30000))
	maxRuns := envInt("JSIM_MAXRUNS", 1<<30)
	minBudget := int64(envInt("JSIM_MIN_MS", 20000))
	keepHashes := mode == "selftest"
	verbose := os.Getenv("JSIM_VERBOSE") != ""
	start := nowMs()
	wo := WorkerOut{Prop: prop, Worker: w, GOMAXPROCS: runtime.GOMAXPROCS(0), Faults: map[string]int{}, Probes: map[string]int{}}
	if keepHashes {
		wo.Hashes = map[string]uint64{}
	}
	distinct := map[uint64]struct{}{}
	nontriv := map[uint64]struct{}{}
	seenKeys := map[string]int{}
	// the seed of the run in progress is kept in a side file: when the Go runtime kills the process
	// (e.g. "fatal error: concurrent map writes" inside the code under test) the driver knows which
	// run to execute again
	var curFile *os.File
	if out != "" {
		curFile, _ = os.Create(out + ".cur")
	}
	for i := 0; i < maxRuns; i++ {
		if nowMs()-start > budget {
			break
		}
		var seed uint64
		if keepHashes {
			seed = tape.Mix(base, tape.HashString(prop), uint64(i)) // same seeds in every process
		} else {
			seed = tape.Mix(base, tape.HashString(prop), uint64(w), uint64(i))
		}
		if one := envU64("JSIM_ONE_SEED", 0); one != 0 {
			seed = one
		}
		if verbose {
			fmt.Fprintf(os.Stderr, "run %d seed %d t=%dms\n", i, seed, nowMs()-start)
		}
		if curFile != nil {
			_, _ = curFile.WriteAt([]byte(fmt.Sprintf("%020d\n", seed)), 0)
		}
		r := Exec(h, prop, tier, seed, opt)
		wo.Runs++
		wo.Evals += 1 + r.Evals
		wo.TapeWords += r.TapeLen
		wo.SimNs += r.SimNs
		wo.Inconclusive += r.Inconcl
		for k, v := range r.Faults {
			wo.Faults[k] += v
		}
		for k, v := range r.Probes {
			wo.Probes[k] += v
		}
		distinct[r.TraceHash] = struct{}{}
		if r.Nontrivial {
			nontriv[r.TraceHash] = struct{}{}
		}
		if keepHashes {
			wo.Hashes[strconv.FormatUint(seed, 10)] = r.TraceHash
			// in-process generate-vs-replay determinism
			r2 := ExecTape(h, prop, tier, seed, r.Tape, opt)
			if r2.TraceHash != r.TraceHash {
				wo.Machinery = append(wo.Machinery, fmt.Sprintf("selftest: seed %d replay hash %x != %x; %s", seed, r2.TraceHash, r.TraceHash, firstDiff(r.Events, r2.Events)))
			}
		}
		if r.Machinery != "" {
			if len(wo.Machinery) < 5 {
				wo.Machinery = append(wo.Machinery, fmt.Sprintf("seed %d: %s", seed, r.Machinery))
			}
			continue
		}
		if len(wo.Samples) < 2 && r.Nontrivial {
			s := r
			s.Tape = nil
			if len(s.Events) > 60 {
				s.Events = append(append([]string(nil), s.Events[:45]...), "...")
			}
			wo.Samples = append(wo.Samples, s)
		}
		if r.Violation != nil {
			seenKeys[r.Violation.Key]++
			if seenKeys[r.Violation.Key] > 1 || len(wo.Violations) >= 6 {
				continue
			}
			vr := ViolationReport{Seed: seed, Violation: *r.Violation, OrigTape: r.Tape, Tape: r.Tape, Events: r.Events, TraceHash: r.TraceHash, GOMAXPROCS: runtime.GOMAXPROCS(0)}
			// determinism: replay the recorded tape in-process
			r2 := ExecTape(h, prop, tier, seed, r.Tape, opt)
			if r2.Violation == nil || r2.Violation.Class != r.Violation.Class || r2.TraceHash != r.TraceHash {
				// The same tape gave another execution: something the simulator does not decide
				// (e.g. Go's choice among several ready select cases inside the code under test)
				// takes part. The oracle failure was observed all the same; it is reported if the
				// same violation recurs from the tape, with the replay marked schedule-dependent and
				// left unminimised, and is a machinery error only if it never recurs.
				diff := firstDiff(r.Events, r2.Events)
				again, tries := 0, 12
				for k := 0; k < tries; k++ {
					rk := ExecTape(h, prop, tier, seed, r.Tape, opt)
					if rk.Violation != nil && rk.Violation.Key == r.Violation.Key {
						again++
					}
				}
				if again == 0 {
					wo.Machinery = append(wo.Machinery, fmt.Sprintf("seed %d: violation %s did not reproduce from its own tape (hash %x vs %x); %s", seed, r.Violation.Key, r.TraceHash, r2.TraceHash, diff))
					continue
				}
				vr.ScheduleDependent = fmt.Sprintf("the same tape reproduced this violation in %d of %d further in-process executions; %s", again, tries, diff)
				wo.Violations = append(wo.Violations, vr)
				continue
			}
			vr.ReplayedOK = true
			mt, mr, tries := Minimise(h, prop, tier, seed, r.Tape, r.Violation.Class, r.Violation.Key, opt, minBudget)
			if mr.Violation != nil {
				vr.Tape, vr.Violation, vr.Events, vr.TraceHash, vr.MinTries = mt, *mr.Violation, mr.Events, mr.TraceHash, tries
				seenKeys[mr.Violation.Key]++
			}
			wo.Violations = append(wo.Violations, vr)
		}
	}
	for k := range nontriv {
		wo.Nontrivial = append(wo.Nontrivial, k)
	}
	sort.Slice(wo.Nontrivial, func(i, j int) bool { return wo.Nontrivial[i] < wo.Nontrivial[j] })
	if len(wo.Nontrivial) > 200000 {
		wo.Nontrivial = wo.Nontrivial[:200000]
	}
	wo.Distinct = len(distinct)
	wo.WallMs = nowMs() - start
	writeJSON(out, wo)
}

// firstDiff names the first event at which two traces of the same tape part.
func firstDiff(a, b []string) string {
	for i := 0; i < len(a) || i < len(b); i++ {
		var x, y string
		if i < len(a) {
			x = a[i]
		}
		if i < len(b) {
			y = b[i]
		}
		if x != y {
			return fmt.Sprintf("first difference at event %d: %q vs %q", i, x, y)
		}
	}
	return "recorded events equal (difference beyond the recorded prefix)"
}

func writeJSON(path string, v any) {
	b, err := json.Marshal(v)
	if err != nil {
		fmt.Fprintf(os.Stderr, "marshal: %v\n", err)
		os.Exit(2)
	}
	if path == "" {
		os.Stdout.Write(b)
		return
	}
	if err := os.WriteFile(path, b, 0o644); err != nil {
		fmt.Fprintf(os.Stderr, "write %s: %v\n", path, err)
		os.Exit(2)
	}
}
